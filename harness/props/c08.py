"""C08 — queue: at-least-once delivery, one holder at a time, no message ever lost.

Proof side: coq/model/QueueM.v (the algorithm of queue/sqlite/queue.py + dlq.py + the ack/reschedule part of
the processor, parameterised by Gen_Queue.v regenerated from the source), coq/proofs/QueueP.v, coq/props/C08.v.

Correspondence (this file): model-based test of the REAL SqliteQueue / AtomicTransaction.push_message /
QueueProcessor.process_one on scratch SQLite files.  Every operation sequence is executed on the real code
under a harness-owned clock (Python's datetime.now in the two modules and SQLite's datetime('now') are both
driven by the same fake clock; all other date arithmetic is SQLite's own), the database is read through a
separate connection after EVERY operation, and the whole trace (rows: id, message identity, payload kind,
deliver_at, text format, locked_until, attempts, max_attempts, version; DLQ rows; return value) is compared
inside Coq with QueueM.trace.  Three streams:
  * sequential: named corner cases + random sequences over 24 operation kinds, incl. crash cuts inside
    move_to_dlq / replay_dlq (Connection subclass that rolls back and raises at a chosen statement);
  * concurrent: 2-3 real threads, each with its own connection, run real poll_one / check_and_move_expired /
    ack / reschedule under a statement-level scheduler (a thread parks before every statement that starts a
    new transaction or autocommit read), so Select/Claim steps interleave in every order the schedule says;
  * time zones: the same under TZ != UTC (SQLite's 'utc' modifier) -- a known finding.
Monitors on the real side: ledger (AFTER INSERT/DELETE triggers + snapshots): every pushed message is in
exactly one of queue / DLQ / acked-by-an-ack after every operation and after every crash; exclusivity from the
poll return values; a drain epilogue (tick, sweep, poll until quiet) that finds rows that are neither
deliverable nor dead-lettered.
"""
from __future__ import annotations

import json
import os
import re
import sqlite3
import threading
import time
from datetime import UTC, datetime as _real_datetime, timedelta

from harness import lib
from harness.lib import RunResult, Violation

PID = "C08"
COQ_TARGETS = ["props/C08.vo"]
THEOREMS = [
    "Stab.props.C08.C08_conservation",
    "Stab.props.C08.C08_conservation_exactly_one",
    "Stab.props.C08.C08_exclusive_cas",
    "Stab.props.C08.C08_exclusive_lock",
    "Stab.props.C08.C08_at_least_once_select",
    "Stab.props.C08.C08_at_least_once_drain",
    "Stab.props.C08.C08_exhausted_moved_not_deleted",
    "Stab.props.C08.C08_replay_unchanged",
    "Stab.props.C08.C08_processor_ack_after_handler",
    "Stab.props.C08.C08_no_stall_when_limits_agree",
    "Stab.props.C08.C08_limit_mismatch_refuted",
    "Stab.props.C08.C08_exclusive_tz_refuted",
]
TRUSTED_BASE = [
    "SQLite: a write transaction (first DML .. COMMIT) is atomic and isolated, a crash before COMMIT leaves no trace, "
    "AUTOINCREMENT ids are never reused, an UPDATE's rowcount is the number of rows its WHERE matched",
    "the clock is monotone; Python's datetime.now(UTC) and SQLite's datetime('now') read the same clock",
    "harness/tr/queue_sql.py (SQL text / statement skeleton of queue.py, dlq.py, transaction.py -> Gen_Queue.v, fail-closed)",
]
ASSUMPTIONS = [
    "the process time zone is UTC for the exclusivity / at-least-once theorems (premise skew_ms = 0); the other case is the "
    "refuted theorem C08_exclusive_tz_refuted and the known finding tz-utc-modifier",
    "the row limit equals the queue limit for the no-stall theorem; the other case is C08_limit_mismatch_refuted",
    "statements of one connection run in program order; threads interleave at statement granularity",
    "PostgreSQL queue is out of scope",
]

BASE_DT = _real_datetime(2026, 3, 10, 0, 0, 0, tzinfo=UTC)
T0_MS = 86_390_000           # the fake clock starts at 23:59:50 so that sequences cross midnight
DAY_MS = 86_400_000
MSG_TYPES = ["StartWorkflow", "CompleteWorkflow", "CancelWorkflow"]
SIG_LIMIT = "limit-mismatch-stall"
SIG_TZ = "tz-utc-modifier"


# ------------------------------------------------------------------------------------------------
# fake clock + connection subclass (clock override, statement hooks, crash injection, scheduler)
# ------------------------------------------------------------------------------------------------

class Crash(BaseException):
    pass


class HandlerFail(Exception):
    pass


class _Clock:
    now_ms = T0_MS


CLOCK = _Clock()
_ORIG_CONNECT = sqlite3.connect
_PLAIN: sqlite3.Connection | None = None
_ENV = None                     # the Env currently executing (hooks are no-ops when None)
_INSTALLED = False


def _abs_dt(ms: int) -> _real_datetime:
    return BASE_DT + timedelta(milliseconds=ms)


class _FakeMeta(type):
    def __instancecheck__(cls, inst):
        return isinstance(inst, _real_datetime)

    def __getattr__(cls, name):
        return getattr(_real_datetime, name)


class FakeDT(metaclass=_FakeMeta):
    """stands in for `datetime` inside queue.py / transaction.py: only now() differs"""
    @staticmethod
    def now(tz=None):
        dt = _abs_dt(CLOCK.now_ms)
        return dt if tz is not None else dt.replace(tzinfo=None)


def _sql_datetime(*args):
    """datetime(...) as SQLite computes it, except that 'now' is the harness clock"""
    if not args:
        return None
    a = list(args)
    if a[0] == "now":
        a[0] = _abs_dt(CLOCK.now_ms).strftime("%Y-%m-%d %H:%M:%S.") + "%03d" % (CLOCK.now_ms % 1000)
    return _PLAIN.execute("SELECT datetime(" + ",".join("?" * len(a)) + ")", a).fetchone()[0]


class HConn(sqlite3.Connection):
    def __init__(self, *a, **k):
        super().__init__(*a, **k)
        self.create_function("datetime", -1, _sql_datetime)
        self.h_owner = threading.get_ident()

    def execute(self, sql, *params):
        env = _ENV
        self.h_params = params[0] if params else None
        if env is not None:
            env.before_stmt(self, sql)
        cur = super().execute(sql, *params)
        if env is not None:
            env.after_stmt(self, False)
        return cur

    def commit(self):
        env = _ENV
        if env is not None:
            env.before_stmt(self, "COMMIT")
        super().commit()
        if env is not None:
            env.after_stmt(self, True)


def _connect(*a, **k):
    k.setdefault("factory", HConn)
    return _ORIG_CONNECT(*a, **k)


def _install():
    global _INSTALLED, _PLAIN
    if _INSTALLED:
        return
    lib.ensure_repo_on_path()
    import stabilize.queue.sqlite.queue as qm
    import stabilize.persistence.sqlite.transaction as tm
    _PLAIN = _ORIG_CONNECT(":memory:", check_same_thread=False)
    sqlite3.connect = _connect
    qm.datetime = FakeDT
    tm.datetime = FakeDT
    _INSTALLED = True


def _uninstall():
    global _INSTALLED, _ENV
    if not _INSTALLED:
        return
    import stabilize.queue.sqlite.queue as qm
    import stabilize.persistence.sqlite.transaction as tm
    sqlite3.connect = _ORIG_CONNECT
    qm.datetime = _real_datetime
    tm.datetime = _real_datetime
    _ENV = None
    _INSTALLED = False


def _set_tz(tz: str | None):
    if tz is None or tz == "UTC":
        os.environ["TZ"] = "UTC"
    else:
        os.environ["TZ"] = tz
    time.tzset()


def tz_skew_ms(tz: str | None) -> int:
    """what SQLite's 'utc' modifier adds to a UTC instant in this time zone (measured on the real SQLite)"""
    _set_tz(tz)
    try:
        c = _ORIG_CONNECT(":memory:")
        a, b = c.execute("SELECT strftime('%s','2026-03-10 12:00:00','utc'), strftime('%s','2026-03-10 12:00:00')").fetchone()
        c.close()
        return (int(a) - int(b)) * 1000
    finally:
        _set_tz(None)


# ------------------------------------------------------------------------------------------------
# the environment: one scratch database, real queue objects, harness reader
# ------------------------------------------------------------------------------------------------

def _stamp_ms(s):
    """stored TEXT -> (ms relative to BASE_DT, sqlfmt?) ; unparsable -> (-999, False)"""
    if s is None:
        return None
    try:
        if re.fullmatch(r"\d{4}-\d\d-\d\d \d\d:\d\d:\d\d", s):
            dt = _real_datetime.strptime(s, "%Y-%m-%d %H:%M:%S").replace(tzinfo=UTC)
            return (int((dt - BASE_DT) / timedelta(milliseconds=1)), True)
        if "T" in s and s.endswith("+00:00"):
            dt = _real_datetime.fromisoformat(s)
            us = (dt - BASE_DT) // timedelta(microseconds=1)
            if us % 1000 == 0:
                return (us // 1000, False)
    except Exception:
        pass
    return (-999, False)


class Env:
    def __init__(self, cfg: dict, tz: str | None = None, nthreads: int = 1):
        global _ENV
        _install()
        from stabilize.persistence.connection import ConnectionManager, SingletonMeta  # noqa: F401
        self.cfg = dict(cfg)
        self.tz = tz
        _set_tz(tz)
        CLOCK.now_ms = T0_MS
        self.dir = lib.scratch_dir("c08")
        self.url = f"sqlite:///{self.dir}/q.db"
        self.crash_at = None
        self.stmt_count = 0
        self.sched = None
        self.dangling = 0
        _ENV = self
        from stabilize.persistence.sqlite.store import SqliteWorkflowStore
        self.store = SqliteWorkflowStore(self.url, create_tables=True)
        self.queues = {}
        self.procs = {}
        self.handler_script = {"ok": True, "seen": None}
        q = self.queue(0)
        q._create_table()
        conn = q._get_connection()
        # ledger triggers (harness-owned table; written inside the engine's own transactions)
        conn.execute("CREATE TABLE h_ledger (seq INTEGER PRIMARY KEY AUTOINCREMENT, tbl TEXT, ev TEXT, rid INTEGER, mtype TEXT, payload TEXT)")
        for tbl in ("queue_messages", "queue_messages_dlq"):
            conn.execute(f"CREATE TRIGGER h_ins_{tbl} AFTER INSERT ON {tbl} BEGIN INSERT INTO h_ledger(tbl, ev, rid, mtype, payload) "
                         f"VALUES ('{tbl}', 'I', NEW.id, NEW.message_type, NEW.payload); END")
            conn.execute(f"CREATE TRIGGER h_del_{tbl} AFTER DELETE ON {tbl} BEGIN INSERT INTO h_ledger(tbl, ev, rid, mtype, payload) "
                         f"VALUES ('{tbl}', 'D', OLD.id, OLD.message_type, OLD.payload); END")
        conn.commit()
        self.reader = _ORIG_CONNECT(str(self.dir / "q.db"), timeout=5, check_same_thread=False)
        self.ledger_seen = 0
        # message identities
        self.next_tag = 0
        self.tag_kind: dict[int, str] = {}
        self.tag_payload: dict[int, str] = {}
        self.tag_type: dict[int, str] = {}
        self.handles: list = []          # message objects returned by polls (any thread)
        self.pushed_done: set[int] = set()   # tags whose push has committed

    # -- real objects ---------------------------------------------------------------------------
    def queue(self, p: int):
        if p not in self.queues:
            from stabilize.queue.sqlite.queue import SqliteQueue
            self.queues[p] = SqliteQueue(self.url, lock_duration=timedelta(milliseconds=self.cfg["lock_ms"]),
                                         max_attempts=self.cfg["qmax"])
        return self.queues[p]

    def processor(self, p: int):
        if p not in self.procs:
            from stabilize.queue.processor.processor import QueueProcessor
            from stabilize.queue.processor.config import QueueProcessorConfig
            import stabilize.queue.messages as M
            pr = QueueProcessor(self.queue(p), config=QueueProcessorConfig(
                enable_deduplication=False, retry_delay=timedelta(milliseconds=self.cfg["retry_ms"]), enable_lock_heartbeat=False))

            def handler(message):
                self.handler_script["seen"] = (int(message.message_id), message.attempts)
                if not self.handler_script["ok"]:
                    raise HandlerFail("scripted handler failure")
            for t in MSG_TYPES:
                pr.register_handler_func(getattr(M, t), handler)
            self.procs[p] = pr
        return self.procs[p]

    def restart(self):
        """process death: connections of this thread are closed (uncommitted work is lost), objects rebuilt"""
        for q in self.queues.values():
            try:
                q.close()
            except Exception:
                pass
        self.queues.clear()
        self.procs.clear()

    def close(self):
        global _ENV
        try:
            self.restart()
            try:
                self.store.close()
            except Exception:
                pass
            self.reader.close()
        finally:
            _ENV = None
            _set_tz(None)
            lib.rm_rf(self.dir)

    # -- statement hooks --------------------------------------------------------------------------
    def before_stmt(self, conn, sql):
        if self.sched is not None:
            self.sched.before_stmt(conn, sql)
        if self.crash_at is not None and threading.get_ident() == self.crash_thread and self.stmt_count == self.crash_at:
            self.crash_at = None
            try:
                sqlite3.Connection.rollback(conn)
            finally:
                raise Crash()

    def after_stmt(self, conn, was_commit):
        if self.crash_at is not None and threading.get_ident() == self.crash_thread:
            self.stmt_count += 1
            if was_commit and self.stmt_count == self.crash_at:
                self.crash_at = None
                raise Crash()

    # -- messages -----------------------------------------------------------------------------------
    def new_message(self, mmax: int | None = None):
        import stabilize.queue.messages as M
        tag = self.next_tag
        self.next_tag += 1
        t = MSG_TYPES[tag % len(MSG_TYPES)]
        m = getattr(M, t)(execution_id=f"m{tag}")
        if mmax is not None:
            m.max_attempts = mmax
        self.tag_type[tag] = t
        return tag, m

    def payload_for(self, tag: int, kind: str, m) -> str:
        from stabilize.queue.sqlite.serialization import serialize_message
        good = serialize_message(m)
        if kind == "Good":
            return good
        if kind == "BadJson":
            return good + "\x00 trailing garbage after a NUL: json.loads fails, SQLite's json_extract stops at the NUL"
        d = json.loads(good)
        d["no_such_field"] = 1
        return json.dumps(d)

    # -- observation ---------------------------------------------------------------------------------
    def observe(self):
        rows = []
        for r in self.reader.execute("SELECT id, message_type, payload, deliver_at, attempts, max_attempts, locked_until, version "
                                     "FROM queue_messages ORDER BY id"):
            tag = self._identify(r[1], r[2])
            dv = _stamp_ms(r[3])
            lk = _stamp_ms(r[6])
            rows.append({"id": r[0], "mid": tag, "kind": self.tag_kind.get(tag, "Good"), "deliver": dv[0], "sqlfmt": dv[1],
                         "lock": None if lk is None else (lk[0] if not lk[1] else -998), "att": r[4], "max": r[5], "ver": r[7]})
        dl = []
        for r in self.reader.execute("SELECT id, original_id, message_type, payload, attempts FROM queue_messages_dlq ORDER BY id"):
            tag = self._identify(r[2], r[3])
            dl.append({"id": r[0], "orig": r[1], "mid": tag, "kind": self.tag_kind.get(tag, "Good"), "att": r[4]})
        return rows, dl

    def _identify(self, mtype, payload) -> int:
        m = re.search(r'"execution_id": "m(\d+)"', payload or "")
        if not m:
            return -1
        tag = int(m.group(1))
        if tag not in self.tag_type or self.tag_type[tag] != mtype:
            return -2
        if tag not in self.tag_payload:
            self.tag_payload[tag] = payload
        elif self.tag_payload[tag] != payload:
            return -3
        return tag

    def ledger_new(self):
        ev = list(self.reader.execute("SELECT seq, tbl, ev, rid, mtype, payload FROM h_ledger WHERE seq > ? ORDER BY seq", (self.ledger_seen,)))
        if ev:
            self.ledger_seen = ev[-1][0]
        return ev


# ------------------------------------------------------------------------------------------------
# executing one harness operation on the real code
# ------------------------------------------------------------------------------------------------

def _canon_poll(fn):
    try:
        m = fn()
    except Crash:
        raise
    except Exception as e:
        return ("raise", type(e).__name__), None
    if m is None:
        return ("none",), None
    return ("msg", int(m.message_id), m.attempts), m


class _Stub:
    """a message handle with only an id (what a worker of another process would hold)"""
    def __init__(self, mid):
        self.message_id = str(mid)


def exec_op(env: Env, op: dict):
    """run one operation; returns the canonical result tuple. `op` is JSON-able and self-contained."""
    k = op["op"]
    p = op.get("p", 0)
    q = env.queue(p)
    if k == "push":
        tag, m = env.new_message()
        env.tag_kind[tag] = "Good"
        d = op["delay"]
        q.push(m, timedelta(milliseconds=d) if d is not None else None)
        env.pushed_done.add(tag)
        return ("unit",)
    if k == "ensure":
        tag, m = env.new_message()
        env.tag_kind[tag] = "Good"
        q.ensure(m, timedelta(milliseconds=op["delay"]))
        env.pushed_done.add(tag)
        return ("unit",)
    if k == "pushtx":
        tag, m = env.new_message(op["mmax"])
        env.tag_kind[tag] = "Good"
        with env.store.transaction(q) as txn:
            txn.push_message(m, delay=op["delay"] / 1000.0)
        env.pushed_done.add(tag)
        return ("unit",)
    if k == "pushtx_rollback":
        # a transaction whose body raises after the push: nothing may remain
        import stabilize.queue.messages as M
        m = getattr(M, MSG_TYPES[0])(execution_id="rolled-back")
        try:
            with env.store.transaction(q) as txn:
                txn.push_message(m, delay=0)
                raise HandlerFail("rollback")
        except HandlerFail:
            pass
        return ("unit",)
    if k == "inject":
        tag, m = env.new_message(op["mmax"])
        env.tag_kind[tag] = op["kind"]
        payload = env.payload_for(tag, op["kind"], m)
        conn = q._get_connection()
        import uuid
        sqlite3.Connection.execute(
            conn, "INSERT INTO queue_messages (message_id, message_type, payload, deliver_at, max_attempts) VALUES (?,?,?,?,?)",
            (str(uuid.uuid4()), env.tag_type[tag], payload, _abs_dt(CLOCK.now_ms + op["delay"]).isoformat(), op["mmax"]))
        sqlite3.Connection.commit(conn)
        env.pushed_done.add(tag)
        return ("unit",)
    if k == "poll":
        r, m = _canon_poll(q.poll_one)
        if m is not None:
            env.handles.append(m)
        return r
    if k == "proc":
        pr = env.processor(p)
        env.handler_script["ok"] = op["ok"]
        env.handler_script["seen"] = None
        try:
            ret = pr.process_one()
            exc = None
        except Crash:
            raise
        except Exception as e:
            ret, exc = None, e
        seen = env.handler_script["seen"]
        if seen is not None:
            good = (ret is True and exc is None) if op["ok"] else isinstance(exc, HandlerFail)
            return ("msg", seen[0], seen[1]) if good else ("proc-anomaly", repr(ret), repr(exc))
        if exc is not None:
            return ("raise", type(exc).__name__)
        return ("none",) if ret is False else ("proc-anomaly", repr(ret), "handler not called")
    if k == "ack":
        q.ack(_Stub(op["id"]))
        return ("unit",)
    if k == "resched":
        q.reschedule(_Stub(op["id"]), timedelta(milliseconds=op["delay"]))
        return ("unit",)
    if k == "extend":
        d = op["dur"]
        return ("bool", bool(q.extend_lock(_Stub(op["id"]), None if d is None else timedelta(milliseconds=d))))
    if k == "tick":
        CLOCK.now_ms += max(0, op["d"])
        return ("unit",)
    if k == "sweep":
        if op.get("via_processor"):
            got = []
            orig = q.check_and_move_expired
            q.check_and_move_expired = lambda: (got.append(orig()), got[-1])[1]
            try:
                env.processor(p)._check_dlq()
            finally:
                del q.check_and_move_expired
            return ("int", got[0] if got else -1)
        return ("int", q.check_and_move_expired())
    if k == "move":
        q.move_to_dlq(op["id"] if not op.get("as_str") else str(op["id"]), op.get("error"))
        return ("unit",)
    if k == "replay":
        return ("bool", bool(q.replay_dlq(op["did"])))
    if k in ("cutmove", "cutreplay"):
        q._get_connection()          # (re)open the connection first: its PRAGMAs are not statements of the operation
        env.crash_at, env.stmt_count, env.crash_thread = op["k"], 0, threading.get_ident()
        try:
            if k == "cutmove":
                q.move_to_dlq(op["id"], "cut")
            else:
                q.replay_dlq(op["did"])
            crashed = False
        except Crash:
            crashed = True
        finally:
            env.crash_at = None
        if crashed:
            env.restart()
        return ("unit",)
    if k == "clearq":
        q.clear()
        return ("unit",)
    if k == "cleardlq":
        return ("int", q.clear_dlq())
    if k == "readonly":
        # size / dlq_size / list_dlq / has_pending_message_for_task must not change anything
        rows, dl = env.observe()
        ok = q.size() == len(rows) and q.dlq_size() == len(dl) and len(q.list_dlq(limit=1000)) == len(dl)
        try:
            q.has_pending_message_for_task("no-such-task")
        except Exception:
            ok = False
        return ("unit",) if ok else ("readonly-anomaly",)
    raise ValueError("unknown op " + k)


# ------------------------------------------------------------------------------------------------
# printing a case for Coq
# ------------------------------------------------------------------------------------------------

def _z(n):
    return f"({n})" if n < 0 else str(n)


def cq_op(op: dict) -> str:
    k = op["op"]
    p = f"{op.get('p', 0)}%nat"
    if k in ("push", "ensure"):
        return f"Push {_z(op['delay'] or 0)}"
    if k == "pushtx":
        return f"PushTx {_z(op['delay'])} {_z(op['mmax'])}"
    if k in ("pushtx_rollback", "readonly"):
        return "Nop"
    if k == "inject":
        return f"Inject {op['kind']} {_z(op['delay'])} {_z(op['mmax'])}"
    if k == "poll":
        return f"PollOne {p}"
    if k == "proc":
        return f"ProcOne {p} {lib.cq_bool(op['ok'])}"
    if k == "ack":
        return f"Ack {_z(op['id'])}"
    if k == "resched":
        return f"Resched {_z(op['id'])} {_z(op['delay'])}"
    if k == "extend":
        return f"Extend {_z(op['id'])} {_z(op['dur'] or 0)}"
    if k == "tick":
        return f"Tick {_z(op['d'])}"
    if k == "sweep":
        return f"Sweep {p}"
    if k == "move":
        return f"MoveDlq {_z(op['id'])}"
    if k == "replay":
        return f"Replay {_z(op['did'])}"
    if k == "cutmove":
        return f"CutMove {_z(op['id'])} {op['k']}%nat"
    if k == "cutreplay":
        return f"CutReplay {_z(op['did'])} {op['k']}%nat"
    if k == "clearq":
        return "ClearQ"
    if k == "cleardlq":
        return "ClearDlq"
    # fine-grained steps (concurrent stream)
    if k == "select":
        return f"Select {p}"
    if k == "claim":
        return f"Claim {p}"
    if k == "movecorrupt":
        return f"MoveCorrupt {p}"
    if k == "sweepselect":
        return f"SweepSelect {p}"
    if k == "sweepmove":
        return f"SweepMove {p}"
    if k == "crash":
        return f"Crash {p}"
    raise ValueError(k)


def cq_res(r) -> str:
    t = r[0]
    if t == "unit":
        return "RUnit"
    if t == "none":
        return "RNone"
    if t == "msg":
        return f"(RMsg {_z(r[1])} {_z(r[2])})"
    if t == "raise":
        return "RRaise"
    if t == "bool":
        return f"(RBool {lib.cq_bool(r[1])})"
    if t == "int":
        return f"(RInt {_z(r[1])})"
    if t == "sel":
        return "(RSel None)" if r[1] is None else f"(RSel (Some {_z(r[1])}))"
    if t == "lost":
        return "RLost"
    if t == "corrupt":
        return "RCorrupt"
    return "(RInt (-777))"       # anomalies never equal a model result


def cq_obs(rows, dl, r, state=True) -> str:
    if not state:
        return "mkObs false [] [] " + ("None" if r is None else f"(Some {cq_res(r)})")
    rs = "; ".join(
        f"mkRow {x['id']} {_z(x['mid'])} {x['kind']} {_z(x['deliver'])} {lib.cq_bool(x['sqlfmt'])} "
        f"{'None' if x['lock'] is None else '(Some %s)' % _z(x['lock'])} {_z(x['att'])} {_z(x['max'])} {_z(x['ver'])}" for x in rows)
    ds = "; ".join(f"mkD {x['id']} {_z(x['orig'])} {_z(x['mid'])} {x['kind']} {_z(x['att'])}" for x in dl)
    return f"mkObs true [{rs}] [{ds}] " + ("None" if r is None else f"(Some {cq_res(r)})")


def cq_case(cfg, ops, obs) -> str:
    return ("(mkCfg %s %s %s %s, %d, [%s], [%s])" % (
        _z(cfg["qmax"]), _z(cfg["lock_ms"]), _z(cfg["skew_ms"]), _z(cfg["retry_ms"]), T0_MS,
        "; ".join(cq_op(o) for o in ops), ";\n ".join(obs)))


CASE_TYPE = "cfg * Z * list op * list obs"
CHECK_FN = "fun x => match x with (c, t0, ops, os) => case_ok c t0 ops os end"
REQ = "From Stab.model Require Import QueueM.\nFrom Stab.gen Require Import Gen_Queue.\nOpen Scope Z_scope."


# ------------------------------------------------------------------------------------------------
# monitors on the real side (the property evaluated on real behaviour)
# ------------------------------------------------------------------------------------------------

class Monitor:
    def __init__(self, env: Env):
        self.env = env
        self.gone_ok: set[int] = set()
        self.holders: dict[int, dict] = {}
        self.found: list[tuple[str, str]] = []      # (signature, what)
        self.prev_rows: list[dict] = []
        self.prev_dl: list[dict] = []
        self.claims: dict[int, int] = {}           # row id -> how often a poll / process_one handed it out

    def _sec(self, x):
        return x // 1000

    def note(self, sig, what):
        if not any(s == sig for s, _ in self.found):
            self.found.append((sig, what))

    def claim_seen(self, rid: int, lock_from: int):
        """a poll returned row `rid`; lock_from = the clock when that poll was entered"""
        env = self.env
        h = self.holders.get(rid)
        now = CLOCK.now_ms
        if h is not None and not h["touched"] and now <= h["until"]:
            sig = SIG_TZ if env.cfg["skew_ms"] > 0 else "double-claim-within-lock"
            self.note(sig, f"row {rid} was returned by a poll at t={h['t']}ms and again at t={now}ms although its lock lasts until "
                           f"{h['until']}ms and nobody rescheduled / extended it"
                           + (f" (process TZ offset makes SQLite's datetime('now','utc') run {env.cfg['skew_ms']}ms ahead)" if sig == SIG_TZ else ""))
        self.holders[rid] = {"t": now, "until": lock_from + env.cfg["lock_ms"], "touched": False}

    def after_op(self, op: dict, res, rows, dl, t_before: int, observed: bool = True, live=None):
        env = self.env
        k = op["op"]
        by_id = {r["id"]: r for r in self.prev_rows}
        # what may legitimately leave the system
        if k in ("ack",) and op["id"] in by_id:
            self.gone_ok.add(by_id[op["id"]]["mid"])
        if k == "proc" and res[0] == "msg" and op["ok"] and res[1] in by_id:
            self.gone_ok.add(by_id[res[1]]["mid"])
        if k in ("replay", "cutreplay", "move", "cutmove", "clearq", "cleardlq", "inject"):
            self.claims.clear()
        if k == "clearq":
            self.gone_ok |= {r["mid"] for r in self.prev_rows}
        if k == "cleardlq":
            self.gone_ok |= {r["mid"] for r in self.prev_dl}
        # exclusivity
        if k in ("poll", "proc", "claim") and res[0] == "msg":
            self.claim_seen(res[1], op.get("lock_from", t_before))
            # the attempt limit: a row is handed out at most min(row max_attempts, queue max_attempts) times, then it is
            # hidden from polls and the sweep dead-letters it (a message that keeps failing is not retried for ever)
            rid = res[1]
            row = by_id.get(rid)
            if k == "proc" and not op["ok"] and row is not None:
                # counted on the processor's failure path only (handler raised -> reschedule with the retry delay); a DLQ
                # replay / move starts a new life of the message (see below)
                self.claims[rid] = self.claims.get(rid, 0) + 1
            lim = env.cfg["qmax"]      # poll_one hides a row once attempts >= the QUEUE's max_attempts (the row's own, smaller
            # limit is applied by the sweep only: until a sweep runs such a row may still be handed out)
            if self.claims.get(rid, 0) > lim:
                self.note("over-delivered", f"row {rid} was handed out {self.claims[rid]} times although its attempt limit is {lim}: "
                                            f"the attempt counter no longer grows with every delivery (attempts now {row['att'] if row else '?'})")
        if k in ("resched", "extend") and op["id"] in self.holders:
            self.holders[op["id"]]["touched"] = True
        if k == "proc" and res[0] == "msg" and not op["ok"] and res[1] in self.holders:
            self.holders[res[1]]["touched"] = True
        if not observed:
            return
        # conservation: every pushed message in exactly one place
        self.check_places(rows, dl, f"after {k}", live)
        # at-least-once, direct form: a sequential poll that returns nothing and changes nothing while a row is deliverable
        if k == "poll" and res[0] == "none" and rows == self.prev_rows and dl == self.prev_dl and env.sched is None:
            now = CLOCK.now_ms
            for r in rows:
                if (r["deliver"] >= 0 and self._sec(r["deliver"]) <= self._sec(now) and r["att"] < env.cfg["qmax"]
                        and (r["lock"] is None or self._sec(r["lock"]) < self._sec(now))):
                    sig = SIG_TZ if env.cfg["skew_ms"] != 0 else "poll-missed-deliverable"
                    self.note(sig, f"poll_one returned None at t={now}ms although row {r['id']} is due (deliver_at={r['deliver']}ms), "
                                   f"unlocked and has attempts {r['att']} < {env.cfg['qmax']}")
                    break
        self.prev_rows, self.prev_dl = rows, dl

    def check_places(self, rows, dl, when, live=None):
        env = self.env
        live = env.pushed_done if live is None else live
        cnt: dict[int, int] = {}
        for r in rows:
            cnt[r["mid"]] = cnt.get(r["mid"], 0) + 1
        for r in dl:
            cnt[r["mid"]] = cnt.get(r["mid"], 0) + 1
        for tag in list(cnt):
            if tag < 0:
                self.note("payload-or-type-changed", f"{when}: a stored row no longer carries the type/payload that was pushed (code {tag})")
        for tag in sorted(live):
            n = cnt.get(tag, 0)
            if n > 1:
                self.note("message-duplicated", f"{when}: message m{tag} is in {n} places (queue/DLQ)")
            if n == 0 and tag not in self.gone_ok:
                self.note("message-lost", f"{when}: message m{tag} is in neither queue nor DLQ and was never acknowledged")
            if n >= 1 and tag in self.gone_ok and False:
                pass


def drain_and_check(env: Env, mon: Monitor, ops_out: list, obs_out: list, max_rows_hint: int):
    """epilogue: everything is made due, the sweep runs, one worker polls until nothing happens.  A row that is
    still in the queue and was never claimed on the way is neither deliverable nor dead-lettered."""
    def do(op):
        t = CLOCK.now_ms
        r = exec_op(env, op)
        rows, dl = env.observe()
        mon.after_op(op, r, rows, dl, t)
        ops_out.append(op)
        obs_out.append(cq_obs(rows, dl, r))
        return r, rows, dl
    do({"op": "tick", "d": 10 * DAY_MS})
    _, rows, dl = do({"op": "sweep", "p": 0})
    claimed: set[int] = set()
    for _ in range(3 * max(1, len(rows)) + 3):
        before = {r["id"]: r["att"] for r in rows}
        before_all = (rows, dl)
        r, rows, dl = do({"op": "poll", "p": 0})
        for x in rows:
            if x["id"] in before and x["att"] != before[x["id"]]:
                claimed.add(x["id"])
        if r[0] == "none" and (rows, dl) == before_all:
            break
    _, rows, dl = do({"op": "sweep", "p": 0})
    for x in rows:
        if x["id"] not in claimed:
            if x["att"] >= env.cfg["qmax"] and x["max"] > env.cfg["qmax"]:
                mon.note(SIG_LIMIT, f"row {x['id']} (m{x['mid']}) has attempts={x['att']}: poll_one skips it (queue max_attempts="
                                    f"{env.cfg['qmax']}) and check_and_move_expired skips it (row max_attempts={x['max']}) -- it is "
                                    "neither deliverable nor dead-lettered, for ever")
            else:
                mon.note("stalled-row", f"row {x['id']} (m{x['mid']}, attempts={x['att']}, max_attempts={x['max']}) is due and unlocked "
                                        "but no poll returns it and the sweep does not move it")


# ------------------------------------------------------------------------------------------------
# sequential stream
# ------------------------------------------------------------------------------------------------

def run_sequence(cfg: dict, tz, source, drain: bool = True):
    """source: list of ops, or callable(env, rows, dl, rng-state) -> op | None.  Returns a dict with the executed
    ops, Coq case text, monitor findings."""
    env = Env(cfg, tz)
    ops: list[dict] = []
    obs: list[str] = []
    mon = Monitor(env)
    results = []
    try:
        rows, dl = env.observe()
        mon.prev_rows, mon.prev_dl = rows, dl
        i = 0
        while True:
            if callable(source):
                op = source(env, rows, dl)
            else:
                op = source[i] if i < len(source) else None
            if op is None or op.get("op") == "drain":
                break
            i += 1
            t = CLOCK.now_ms
            r = exec_op(env, op)
            rows, dl = env.observe()
            mon.after_op(op, r, rows, dl, t)
            ops.append(op)
            obs.append(cq_obs(rows, dl, r))
            results.append(r)
        n_body = len(ops)
        if drain:
            drain_and_check(env, mon, ops, obs, len(rows))
        if env.queue(0)._get_connection().in_transaction:
            env.dangling += 1
    finally:
        env.close()
    return {"cfg": cfg, "tz": tz, "ops": ops, "n_body": n_body, "case": cq_case(cfg, ops, obs), "found": mon.found, "results": results}


DELAYS = [None, None, None, 0, 500, 1000, 1500, 2500, 61000, -2000]
TICKS = [0, 1, 10, 499, 500, 999, 1000, 1001, 15000, 61000]
WEIGHTS = [("push", 14), ("pushtx", 8), ("pushtx_rollback", 1), ("ensure", 1), ("inject", 6), ("poll", 22), ("proc", 8),
           ("ack", 6), ("resched", 5), ("extend", 4), ("tick", 14), ("sweep", 6), ("move", 2), ("replay", 5),
           ("cutmove", 2), ("cutreplay", 2), ("clearq", 0.3), ("cleardlq", 0.5), ("readonly", 1)]


def random_cfg(rng, skew=0):
    return {"qmax": rng.choice([10, 10, 10, 10, 1, 2, 3, 12]), "lock_ms": rng.choice([60000, 60000, 1000, 1500, 2000, 500]),
            "retry_ms": rng.choice([15000, 15000, 0, 1000, 2500]), "skew_ms": skew}


def random_source(rng, cfg, n_ops):
    kinds = [k for k, _ in WEIGHTS]
    ws = [w for _, w in WEIGHTS]
    state = {"n": 0}

    def pick_id(env, rows):
        x = rng.random()
        if env.handles and x < 0.6:
            return int(rng.choice(env.handles).message_id)
        if rows and x < 0.9:
            return rng.choice(rows)["id"]
        return rng.choice([0, 999, (rows[-1]["id"] + 1) if rows else 1])

    def src(env, rows, dl):
        if state["n"] >= n_ops:
            return None
        state["n"] += 1
        k = rng.choices(kinds, ws)[0]
        if k in ("push", "ensure"):
            d = rng.choice(DELAYS)
            return {"op": k, "delay": d if k == "push" else (d or 0)}
        if k == "pushtx":
            return {"op": k, "delay": rng.choice([0, 0, 0, 500, 1500, -2000, 61000]), "mmax": rng.choice([cfg["qmax"], 10, 10, 1, 2, 3, 12])}
        if k == "inject":
            return {"op": k, "kind": rng.choice(["Good", "BadJson", "BadJson", "BadType", "BadType"]),
                    "delay": rng.choice([0, 0, 0, 500, 1500, -2000]), "mmax": rng.choice([cfg["qmax"], cfg["qmax"], 10, 2, 3])}
        if k == "poll":
            return {"op": k, "p": rng.choice([0, 0, 1])}
        if k == "proc":
            return {"op": k, "p": rng.choice([0, 1]), "ok": rng.random() < 0.6}
        if k == "ack":
            return {"op": k, "id": pick_id(env, rows)}
        if k == "resched":
            return {"op": k, "id": pick_id(env, rows), "delay": rng.choice([0, 500, 1000, 15000, -1000])}
        if k == "extend":
            return {"op": k, "id": pick_id(env, rows), "dur": rng.choice([None, None, 0, 500, 90000, 1000])}
        if k == "tick":
            return {"op": k, "d": rng.choice(TICKS + [cfg["lock_ms"], cfg["lock_ms"] - 1, cfg["lock_ms"] + 1000, cfg["retry_ms"]])}
        if k == "sweep":
            return {"op": k, "p": 0, "via_processor": rng.random() < 0.4}
        if k == "move":
            return {"op": k, "id": pick_id(env, rows), "as_str": rng.random() < 0.3, "error": rng.choice([None, "boom"])}
        if k in ("replay", "cutreplay"):
            did = rng.choice(dl)["id"] if dl and rng.random() < 0.85 else rng.choice([0, 77])
            return {"op": k, "did": did, **({"k": rng.randrange(0, 4)} if k == "cutreplay" else {})}
        if k == "cutmove":
            return {"op": k, "id": pick_id(env, rows), "k": rng.randrange(0, 4)}
        return {"op": k}
    return src


def named_cases():
    d = {"qmax": 10, "lock_ms": 60000, "retry_ms": 15000, "skew_ms": 0}
    q2 = dict(d, qmax=2, lock_ms=1000)
    out = []
    P, T, PO = (lambda dl=None: {"op": "push", "delay": dl}), (lambda x: {"op": "tick", "d": x}), {"op": "poll", "p": 0}
    out.append(("lock-boundary", d, [P(), PO, dict(PO, p=1), T(60000), PO, T(149), PO, T(1), PO, T(1000), PO, PO]))
    out.append(("delay-boundary", d, [P(1500), PO, T(400), PO, T(100), PO, T(9000), PO, P(-2000), P(0), PO, PO]))
    out.append(("exhaust-sweep-replay", q2, [P(), PO, T(2000), PO, T(2000), PO, {"op": "sweep", "p": 0}, {"op": "replay", "did": 1},
                                             PO, T(2000), PO, T(2000), PO, {"op": "sweep", "p": 0}]))
    out.append(("corrupt-payload", d, [{"op": "inject", "kind": "BadJson", "delay": 0, "mmax": 10}, PO, {"op": "replay", "did": 1}, PO,
                                       {"op": "inject", "kind": "BadType", "delay": 0, "mmax": 10}, PO, T(61000), PO, {"op": "proc", "p": 0, "ok": True}]))
    out.append(("tx-push-limits", dict(d, qmax=3, lock_ms=500), [{"op": "pushtx", "delay": 0, "mmax": 10}, {"op": "pushtx", "delay": 1500, "mmax": 1},
                                                                {"op": "pushtx_rollback"}, {"op": "pushtx", "delay": -2000, "mmax": 3},
                                                                PO, T(1000), PO, T(1000), PO, T(1000), PO, T(1000), PO, {"op": "sweep", "p": 0, "via_processor": True}]))
    out.append(("midnight-order", dict(d, qmax=1, lock_ms=500), [P(), PO, {"op": "sweep", "p": 0}, P(0), T(5000), {"op": "replay", "did": 1}, P(-1000),
                                                                  T(6000), {"op": "move", "id": 2}, {"op": "replay", "did": 2}, P(), T(1000), PO, PO, PO]))
    out.append(("stale-handles", d, [P(), PO, {"op": "move", "id": 1}, {"op": "replay", "did": 1}, {"op": "ack", "id": 1}, {"op": "extend", "id": 1, "dur": None},
                                     {"op": "resched", "id": 1, "delay": 0}, PO, {"op": "ack", "id": 2}, {"op": "ack", "id": 2}, {"op": "extend", "id": 2, "dur": 500}]))
    out.append(("stale-reschedule", d, [P(), PO, T(61000), dict(PO, p=1), {"op": "resched", "id": 1, "delay": 0}, PO, {"op": "extend", "id": 1, "dur": 0},
                                        T(1000), PO]))
    for k in range(4):
        out.append((f"cut-move-{k}", d, [P(), P(500), {"op": "cutmove", "id": 1, "k": k}, {"op": "readonly"}, {"op": "move", "id": 1},
                                         {"op": "cutreplay", "did": 1, "k": k}, {"op": "replay", "did": 1}, {"op": "cutmove", "id": 99, "k": k}, PO]))
    out.append(("processor", dict(d, retry_ms=2500), [P(), P(), {"op": "proc", "p": 0, "ok": True}, {"op": "proc", "p": 0, "ok": False}, {"op": "proc", "p": 0, "ok": True},
                                                      T(2500), {"op": "proc", "p": 1, "ok": True}, {"op": "proc", "p": 0, "ok": True},
                                                      {"op": "sweep", "p": 0, "via_processor": True}]))
    # a poison message under the processor's DELAYED retry: every failure is rescheduled with the retry delay, the delay passes,
    # the message is delivered again - after max_attempts deliveries it must be dead-lettered, not retried for ever
    q3 = dict(d, qmax=3, lock_ms=1000, retry_ms=2500)
    fail = {"op": "proc", "p": 0, "ok": False}
    out.append(("poison-delayed-retry", q3, [P(), fail, T(2500), fail, T(2500), fail, T(2500), fail, T(2500), fail, T(2500),
                                             {"op": "sweep", "p": 0, "via_processor": True}, fail]))
    out.append(("clear", d, [P(), P(), PO, {"op": "move", "id": 2}, {"op": "cleardlq"}, {"op": "clearq"}, P(), {"op": "readonly"}]))
    out.append(("extend-shortens", dict(d, lock_ms=2000), [P(), PO, {"op": "extend", "id": 1, "dur": 500}, T(1000), PO, {"op": "extend", "id": 1, "dur": 90000}, T(61000), PO]))
    return out


def tz_cases():
    """the same operations under a non-UTC process time zone"""
    out = []
    P, T, PO = (lambda dl=None: {"op": "push", "delay": dl}), (lambda x: {"op": "tick", "d": x}), {"op": "poll", "p": 0}
    for tz in ("Etc/GMT+5", "Etc/GMT-3"):
        d = {"qmax": 10, "lock_ms": 60000, "retry_ms": 15000}
        out.append((f"tz-{tz}-double-claim", d, tz, [P(), PO, dict(PO, p=1), T(1000), PO, P(1500), PO]))
        out.append((f"tz-{tz}-replay", dict(d, qmax=1), tz, [P(), PO, {"op": "sweep", "p": 0}, {"op": "replay", "did": 1}, PO, T(3600_000 * 4), PO]))
    return out


# ------------------------------------------------------------------------------------------------
# concurrent stream: real threads, own connections, statement-level scheduler
# ------------------------------------------------------------------------------------------------

class Sched:
    """Worker threads park before every statement that is issued outside a transaction (an autocommit SELECT or
    the first DML of a write transaction); inside a transaction they run on to the COMMIT, so no thread is ever
    parked while holding SQLite's write lock.  The main thread grants one thread at a time."""

    def __init__(self, env: Env, n: int):
        self.env = env
        self.cv = threading.Condition()
        self.n = n
        self.state = {i: "new" for i in range(n)}      # new | parked | running | done
        self.turn = None
        self.kill: set[int] = set()
        self.tid: dict[int, int] = {}
        self.parked_at: dict[int, tuple] = {}
        self.skip_first: dict[int, bool] = {}
        self.cur: dict[int, dict] = {}
        self.events: list = []                         # ("begin", i, op) | ("stmt", i, sql, params) | ("end", i, op, result) | ("crashed", i)
        self.errors: list = []

    def before_stmt(self, conn, sql):
        i = self.tid.get(threading.get_ident())
        if i is None:
            return
        sql = " ".join(sql.split())[:200]
        if sql != "COMMIT" and not conn.in_transaction:
            if self.skip_first.pop(i, False):
                pass                                      # first statement of an operation: it already parked at its start
            else:
                self.parked_at[i] = (sql, conn.h_params)
                self.park(i)
                self.parked_at.pop(i, None)
        self.events.append(("stmt", i, sql, conn.h_params))

    def park(self, i):
        with self.cv:
            self.state[i] = "parked"
            self.cv.notify_all()
            while self.turn != i:
                if not self.cv.wait(30):
                    raise Crash()
            self.turn = None
            self.state[i] = "running"
            if i in self.kill:
                raise Crash()

    def grant(self, i, kill=False) -> bool:
        """let thread i run until it parks again or finishes; False if it is already done"""
        with self.cv:
            while self.state[i] not in ("parked", "done"):
                if not self.cv.wait(20):
                    self.errors.append(f"thread {i} never parked")
                    return False
            if self.state[i] == "done":
                return False
            if kill:
                self.kill.add(i)
            self.turn = i
            self.state[i] = "running"
            self.cv.notify_all()
            while self.state[i] == "running":
                if not self.cv.wait(40):
                    self.errors.append(f"thread {i} did not reach a scheduling point within 40 s (blocked on a lock?)")
                    return False
        return True

    def wait_all_parked(self):
        with self.cv:
            while any(s not in ("parked", "done") for s in self.state.values()):
                self.cv.wait(10)


def _thread_queue(env: Env):
    from stabilize.queue.sqlite.queue import SqliteQueue
    return SqliteQueue(env.url, lock_duration=timedelta(milliseconds=env.cfg["lock_ms"]), max_attempts=env.cfg["qmax"])


def exec_op_on(env: Env, q, op: dict):
    """like exec_op, on the worker's own queue object (its own thread-local connection)"""
    k = op["op"]
    if k == "poll":
        return _canon_poll(q.poll_one)[0]
    if k == "sweep":
        return ("int", q.check_and_move_expired())
    if k == "ack":
        q.ack(_Stub(op["id"]))
        return ("unit",)
    if k == "resched":
        q.reschedule(_Stub(op["id"]), timedelta(milliseconds=op["delay"]))
        return ("unit",)
    if k == "extend":
        return ("bool", bool(q.extend_lock(_Stub(op["id"]), None if op["dur"] is None else timedelta(milliseconds=op["dur"]))))
    if k == "move":
        q.move_to_dlq(op["id"], None)
        return ("unit",)
    if k == "replay":
        return ("bool", bool(q.replay_dlq(op["did"])))
    if k == "push":
        tag, m = env.new_message()
        env.tag_kind[tag] = "Good"
        q.push(m, timedelta(milliseconds=op["delay"]) if op["delay"] is not None else None)
        env.pushed_done.add(tag)
        return ("unit",)
    raise ValueError(k)


SQL_POLL_SELECT = "SELECT id, message_type, payload, attempts, version"
SQL_CLAIM = "UPDATE queue_messages SET locked_until = :locked_until, attempts"
SQL_DELRET = "DELETE FROM queue_messages WHERE id = :id RETURNING"
SQL_SWEEP = "SELECT id, message_type, attempts FROM"
SQL_ACK = "DELETE FROM queue_messages WHERE id = :id"
SQL_RESCHED = "UPDATE queue_messages SET deliver_at"
SQL_EXTEND = "UPDATE queue_messages SET locked_until = :locked_until WHERE"
SQL_DELDLQ = "DELETE FROM queue_messages_dlq WHERE id = :id RETURNING"
SQL_PUSH = "INSERT INTO queue_messages (message_id, message_type, payload, deliver_at, attempts, max_attempts)"
SQL_SILENT = ("COMMIT", "INSERT INTO queue_messages_dlq", "INSERT INTO queue_messages ( message_id, message_type, payload, deliver_at, attempts )")


def run_concurrent(cfg: dict, setup: list, thread_ops: list, schedule: list, tz=None):
    """setup: sequential ops first (main thread).  thread_ops[i]: ops of worker i (poll / sweep / ack / resched /
    extend / push / move / replay).  schedule: list of ["S", i] | ["K", i] (kill thread i where it is parked) |
    ["T", d] (clock tick); afterwards every thread is run to completion in index order, then the drain epilogue."""
    env = Env(cfg, tz)
    mon = Monitor(env)
    n = len(thread_ops)
    out = {"cfg": cfg, "tz": tz, "setup": setup, "thread_ops": thread_ops, "schedule": schedule, "errors": []}
    steps: list[dict] = []        # {"op":…, "res":…|None, "state": bool, "rows":…, "dl":…}
    try:
        rows, dl = env.observe()
        mon.prev_rows, mon.prev_dl = rows, dl
        for op in setup:
            t = CLOCK.now_ms
            r = exec_op(env, op)
            rows, dl = env.observe()
            mon.after_op(op, r, rows, dl, t)
            steps.append({"op": op, "res": r, "state": True, "rows": rows, "dl": dl})
        mc = env.queue(0)._get_connection()
        if mc.in_transaction:            # a not-found move/replay left the main connection inside a write transaction
            env.dangling += 1
            sqlite3.Connection.rollback(mc)
        sch = Sched(env, n)
        entered: dict[int, int] = {}

        def worker(i):
            q = _thread_queue(env)
            try:
                q._get_connection()                       # open (PRAGMAs) before scheduling starts
                sch.tid[threading.get_ident()] = i
                conn0 = q._get_connection()
                for op in thread_ops[i]:
                    if not conn0.in_transaction:
                        sch.park(i)                       # scheduling point: the operation starts (and reads the clock) here
                        sch.skip_first[i] = True
                    sch.events.append(("begin", i, op))
                    entered[i] = CLOCK.now_ms
                    r = exec_op_on(env, q, op)
                    sch.events.append(("end", i, op, r))
                conn = q._get_connection()
                if conn.in_transaction:
                    env.dangling += 1
                    sqlite3.Connection.rollback(conn)
            except Crash:
                try:
                    sqlite3.Connection.rollback(q._get_connection())
                except Exception:
                    pass
                sch.events.append(("crashed", i))
            except BaseException as e:      # noqa: BLE001
                sch.errors.append(f"thread {i}: {type(e).__name__}: {e}")
            finally:
                sch.tid.pop(threading.get_ident(), None)
                try:
                    q.close()
                except Exception:
                    pass
                with sch.cv:
                    sch.state[i] = "done"
                    sch.cv.notify_all()

        env.sched = sch
        threads = [threading.Thread(target=worker, args=(i,), daemon=True) for i in range(n)]
        for th in threads:
            th.start()
        sch.wait_all_parked()
        full = [tuple(x) for x in schedule] + [("S", i) for i in range(n) for _ in range(80)]
        cursor = 0
        pending: dict[int, dict] = {}       # thread -> its last model step still waiting for a result
        for item in full:
            if item[0] == "T":
                CLOCK.now_ms += max(0, item[1])
                op = {"op": "tick", "d": item[1]}
                steps.append({"op": op, "res": ("unit",), "state": True, "rows": rows, "dl": dl})
                continue
            i = item[1]
            if not sch.grant(i, kill=(item[0] == "K")):
                if all(s == "done" for s in sch.state.values()):
                    break
                continue
            new = sch.events[cursor:]
            cursor = len(sch.events)
            rows, dl = env.observe()
            first = len(steps)
            for ev in new:
                if ev[0] == "begin":
                    sch.cur[ev[1]] = ev[2]
                elif ev[0] == "stmt":
                    _, j, sql, params = ev
                    op = sch.cur.get(j)
                    if op is None or sql.startswith(SQL_SILENT):
                        continue
                    k = op["op"]
                    st = None
                    expected = {"poll": (SQL_POLL_SELECT, SQL_CLAIM, SQL_DELRET), "sweep": (SQL_SWEEP, SQL_DELRET), "ack": (SQL_ACK,),
                                "resched": (SQL_RESCHED,), "extend": (SQL_EXTEND,), "move": (SQL_DELRET,), "replay": (SQL_DELDLQ,),
                                "push": (SQL_PUSH,)}.get(k, ())
                    if not sql.startswith(expected):
                        out["errors"].append(f"statement not expected inside {k}: {sql}")
                        continue
                    if sql.startswith(SQL_POLL_SELECT):
                        st = {"op": {"op": "select", "p": j}, "res": ("sel", None)}
                    elif sql.startswith(SQL_CLAIM):
                        if pending.get(j) and pending[j]["op"]["op"] == "select":
                            pending[j]["res"] = ("sel", params["id"])
                        st = {"op": {"op": "claim", "p": j, "lock_from": entered.get(j, 0)}, "res": None}
                    elif sql.startswith(SQL_DELRET):
                        if k == "poll":
                            if pending.get(j) and pending[j]["op"]["op"] == "claim":
                                pending[j]["res"] = ("corrupt",)
                            st = {"op": {"op": "movecorrupt", "p": j}, "res": None}
                        elif k == "sweep":
                            st = {"op": {"op": "sweepmove", "p": j}, "res": ("unit",)}
                        else:
                            st = {"op": {"op": "move", "id": op["id"]}, "res": ("unit",)}
                    elif sql.startswith(SQL_SWEEP):
                        st = {"op": {"op": "sweepselect", "p": j}, "res": None}
                    elif sql.startswith(SQL_ACK):
                        st = {"op": {"op": "ack", "id": op["id"]}, "res": ("unit",)}
                    elif sql.startswith(SQL_RESCHED):
                        st = {"op": {"op": "resched", "id": op["id"], "delay": op["delay"]}, "res": ("unit",)}
                    elif sql.startswith(SQL_EXTEND):
                        st = {"op": {"op": "extend", "id": op["id"], "dur": op["dur"]}, "res": None}
                    elif sql.startswith(SQL_DELDLQ):
                        st = {"op": {"op": "replay", "did": op["did"]}, "res": None}
                    elif sql.startswith(SQL_PUSH):
                        st = {"op": {"op": "push", "delay": op["delay"]}, "res": ("unit",)}
                    else:
                        out["errors"].append("unrecognised statement: " + sql)
                        continue
                    st.update({"state": False, "rows": None, "dl": None, "t": CLOCK.now_ms, "live": set(env.pushed_done)})
                    steps.append(st)
                    pending[j] = st
                elif ev[0] == "end":
                    _, j, op, r = ev
                    k = op["op"]
                    pj = pending.get(j)
                    if pj is not None:
                        mk = pj["op"]["op"]
                        if k == "poll":
                            if mk == "claim":
                                pj["res"] = r if r[0] in ("msg", "raise") else ("lost",)
                            elif mk == "movecorrupt":
                                pj["res"] = ("none",)
                        elif k in ("extend", "replay") and mk == k:
                            pj["res"] = r
                        elif k == "sweep":
                            for st in reversed(steps):
                                if st["op"]["op"] == "sweepselect" and st["op"]["p"] == j:
                                    st["res"] = r
                                    break
                    sch.cur.pop(j, None)
                    pending.pop(j, None)
                elif ev[0] == "crashed":
                    st = {"op": {"op": "crash", "p": ev[1]}, "res": ("unit",), "state": False, "rows": None, "dl": None, "t": CLOCK.now_ms}
                    steps.append(st)
                    sch.cur.pop(ev[1], None)
                    pending.pop(ev[1], None)
            # a select whose thread is now parked at the claim: the candidate is in the parked statement
            pa = sch.parked_at.get(i)
            pj = pending.get(i)
            if pa and pj and pj["op"]["op"] == "select" and pa[0].startswith(SQL_CLAIM):
                pj["res"] = ("sel", pa[1]["id"])
            if pa and pj and pj["op"]["op"] == "claim" and pa[0].startswith(SQL_DELRET):
                pj["res"] = ("corrupt",)
            if len(steps) > first:
                steps[-1].update({"state": True, "rows": rows, "dl": dl, "live": set(env.pushed_done)})
            if all(s == "done" for s in sch.state.values()):
                break
        for th in threads:
            th.join(5)
        env.sched = None
        out["errors"] += sch.errors
        # monitors over the assembled step list (results are complete now)
        for st in steps[len(setup):]:
            if st["op"]["op"] == "tick":
                mon.prev_rows, mon.prev_dl = st["rows"], st["dl"]
                continue
            res = st["res"] if st["res"] is not None else ("unit",)
            saved = CLOCK.now_ms
            CLOCK.now_ms = st.get("t", saved)
            try:
                mon.after_op(st["op"], res, st["rows"], st["dl"], CLOCK.now_ms, observed=st["state"], live=st.get("live"))
            finally:
                CLOCK.now_ms = saved
        ops = [st["op"] for st in steps]
        obs = [cq_obs(st["rows"], st["dl"], st["res"], st["state"]) for st in steps]
        drain_and_check(env, mon, ops, obs, len(rows))
        out.update({"ops": ops, "case": cq_case(cfg, ops, obs), "found": mon.found, "dangling": env.dangling})
    finally:
        env.sched = None
        env.close()
    return out


# ------------------------------------------------------------------------------------------------
# generators for the concurrent stream
# ------------------------------------------------------------------------------------------------

def conc_named():
    d = {"qmax": 10, "lock_ms": 60000, "retry_ms": 15000, "skew_ms": 0}
    P = {"op": "push", "delay": None}
    PO = {"op": "poll"}
    out = []
    # two pollers, one due row / two due rows: every merge of [Select, Claim] x [Select, Claim]
    for setup_name, setup in (("one-row", [P]), ("two-rows", [P, P])):
        for sched in ([0, 1, 0, 1], [0, 1, 1, 0], [0, 0, 1, 1], [1, 0, 0, 1], [1, 0, 1, 0], [1, 1, 0, 0]):
            out.append((f"race-{setup_name}-{''.join(map(str, sched))}", d, setup, [[PO], [PO]], [["S", i] for i in sched]))
    # a poller dies between SELECT and claim / after the claim of a corrupted row, before its DLQ move
    out.append(("die-after-select", d, [P], [[PO], [PO]], [["S", 0], ["K", 0], ["S", 1], ["S", 1]]))
    out.append(("die-before-corrupt-move", d, [{"op": "inject", "kind": "BadJson", "delay": 0, "mmax": 10}], [[PO], [PO]],
                [["S", 0], ["S", 0], ["K", 0], ["S", 1], ["T", 61000], ["S", 1]]))
    # stale candidate: reschedule / extend between SELECT and claim do not bump the version
    out.append(("resched-between", d, [P, {"op": "poll", "p": 0}, {"op": "tick", "d": 61000}],
                [[PO], [{"op": "resched", "id": 1, "delay": 15000}]], [["S", 0], ["S", 1], ["S", 0]]))
    out.append(("extend-between", d, [P, {"op": "poll", "p": 0}, {"op": "tick", "d": 61000}],
                [[PO], [{"op": "extend", "id": 1, "dur": None}], [PO]], [["S", 0], ["S", 1], ["S", 0], ["S", 2]]))
    # sweep racing an ack (the sweeper's DELETE finds nothing and returns inside an open transaction) and a poll
    q1 = dict(d, qmax=1, lock_ms=1000)
    out.append(("sweep-vs-ack", q1, [P, P, {"op": "poll", "p": 0}, {"op": "poll", "p": 0}],
                [[{"op": "sweep"}], [{"op": "ack", "id": 1}, PO]], [["S", 0], ["S", 1], ["S", 0], ["S", 1]]))
    out.append(("sweep-vs-sweep", q1, [P, P, {"op": "poll", "p": 0}, {"op": "poll", "p": 0}],
                [[{"op": "sweep"}], [{"op": "sweep"}]], [["S", 0], ["S", 1], ["S", 0], ["S", 1], ["S", 1], ["S", 0]]))
    out.append(("replay-vs-poll", q1, [P, {"op": "poll", "p": 0}, {"op": "sweep", "p": 0}],
                [[{"op": "replay", "did": 1}, {"op": "replay", "did": 1}], [PO], [PO]], [["S", 1], ["S", 0], ["S", 2], ["S", 1], ["S", 2], ["S", 0]]))
    return out


def conc_random(rng):
    cfg = {"qmax": rng.choice([10, 10, 1, 2, 3]), "lock_ms": rng.choice([60000, 1000, 2000]), "retry_ms": 15000, "skew_ms": 0}
    setup = []
    nrows = rng.randint(1, 4)
    for _ in range(nrows):
        x = rng.random()
        if x < 0.6:
            setup.append({"op": "push", "delay": rng.choice([None, None, 0, 1500, -2000])})
        elif x < 0.8:
            setup.append({"op": "inject", "kind": rng.choice(["BadJson", "BadType", "Good"]), "delay": 0, "mmax": cfg["qmax"]})
        else:
            setup.append({"op": "pushtx", "delay": 0, "mmax": cfg["qmax"]})
    for _ in range(rng.randint(0, 3)):
        setup.append(rng.choice([{"op": "poll", "p": 0}, {"op": "tick", "d": rng.choice([1000, cfg["lock_ms"] + 1000])},
                                 {"op": "sweep", "p": 0}, {"op": "move", "id": rng.randint(1, nrows)}]))
    nthreads = rng.choice([2, 2, 3])
    ids = list(range(1, nrows + 2))
    tops = []
    for _ in range(nthreads):
        ol = []
        for _ in range(rng.randint(1, 3)):
            k = rng.choices(["poll", "sweep", "ack", "resched", "extend", "move", "replay", "push"], [10, 3, 2, 2, 2, 1, 2, 1])[0]
            if k in ("poll", "sweep"):
                ol.append({"op": k})
            elif k == "ack":
                ol.append({"op": k, "id": rng.choice(ids)})
            elif k == "resched":
                ol.append({"op": k, "id": rng.choice(ids), "delay": rng.choice([0, 15000])})
            elif k == "extend":
                ol.append({"op": k, "id": rng.choice(ids), "dur": rng.choice([None, 500])})
            elif k == "move":
                ol.append({"op": k, "id": rng.choice(ids)})
            elif k == "replay":
                ol.append({"op": k, "did": rng.choice([1, 1, 2])})
            else:
                ol.append({"op": k, "delay": None})
        tops.append(ol)
    sched = []
    for _ in range(rng.randint(4, 14)):
        x = rng.random()
        if x < 0.1:
            sched.append(["T", rng.choice([1, 1000, cfg["lock_ms"], cfg["lock_ms"] + 1000])])
        elif x < 0.15:
            sched.append(["K", rng.randrange(nthreads)])
        else:
            sched.append(["S", rng.randrange(nthreads)])
    return cfg, setup, tops, sched


# ------------------------------------------------------------------------------------------------
# run / search / replay
# ------------------------------------------------------------------------------------------------

def _check_cases_in_coq(cases: list[str], name: str, res: RunResult, metas: list[dict]):
    if not cases:
        return
    fail, err = lib.coq_failing_indices(REQ, CHECK_FN, CASE_TYPE, cases, name, shard=max(8, min(40, len(cases) // lib.NPROC + 1)))
    if err:
        res.disagreements.append({"what": "the model could not be evaluated in Coq", "detail": err[:700]})
    for i in fail[:6]:
        detail = ""
        try:
            rc, out = lib.coq_run(
                "From Coq Require Import List Bool ZArith String.\n" + REQ + "\nImport ListNotations.\n"
                f"Definition x : {CASE_TYPE} := {cases[i]}.\n"
                "Definition k := match x with (c, t0, ops, os) => first_diff (trace c ops (init t0)) os 0 end.\n"
                "Eval vm_compute in k.\n"
                "Eval vm_compute in match x with (c, t0, ops, os) => (nth_error ops k, option_map (fun y => (rows (fst y), dlq (fst y), snd y)) "
                "(nth_error (trace c ops (init t0)) k), nth_error os k) end.\n", f"{name}_diag{i}")
            detail = re.sub(r"\s+", " ", out)[-1200:]
        except Exception as e:      # noqa: BLE001
            detail = repr(e)
        res.disagreements.append({"what": "QueueM and the real queue differ", "case": metas[i], "first_difference": detail})


def _premises_now() -> dict:
    rc, out = lib.coq_run("From Stab.gen Require Import Gen_Queue.\nFrom Coq Require Import ZArith.\nOpen Scope Z_scope.\n"
                          "Eval vm_compute in (sweep_pred 3 10 3, now_utc_modifier).\n", "c08_premises")
    m = re.search(r"\((true|false),\s*(true|false)\)", out)
    if rc != 0 or not m:
        return {"error": out[-300:]}
    return {"limit_mismatch_possible_in_model": m.group(1) == "false", "utc_modifier_in_model": m.group(2) == "true"}


def _violations_of(found, replay_obj) -> list:
    return [Violation(what=w, signature=s, replay=dict(replay_obj, signature=s)) for s, w in found]


def _nontrivial(r) -> bool:
    kinds = {o["op"] for o in r["ops"]}
    return len(kinds) >= 4 and any(x[0] == "msg" for x in r.get("results", [("msg",)]))


def real_clock_smoke() -> list[str]:
    """no fake clock, SQLite's own datetime('now'): the few facts that do not depend on how much real time passes"""
    _uninstall()
    _set_tz(None)
    lib.ensure_repo_on_path()
    from stabilize.queue.sqlite.queue import SqliteQueue
    import stabilize.queue.messages as M
    d = lib.scratch_dir("c08rc")
    out = []
    try:
        q = SqliteQueue(f"sqlite:///{d}/q.db", lock_duration=timedelta(seconds=60))
        q._create_table()
        q.push(M.StartWorkflow(execution_id="a"))
        q.push(M.StartWorkflow(execution_id="b"), timedelta(seconds=30))
        got = []
        m1 = q.poll_one()
        got.append(None if m1 is None else (m1.message_id, m1.attempts))
        got.append(q.poll_one())                      # a is locked for 60 s, b is due in 30 s
        q.reschedule(_Stub(2), timedelta(seconds=0))
        m2 = q.poll_one()
        got.append(None if m2 is None else (m2.message_id, m2.attempts))
        q.ack(_Stub(1))
        got.append(q.size())
        q.reschedule(_Stub(2), timedelta(seconds=-1))   # a failed handler: lock cleared, due again
        m3 = q.poll_one()
        got.append(None if m3 is None else (m3.message_id, m3.attempts))
        want = [("1", 1), None, ("2", 1), 1, ("2", 2)]
        if got != want:
            out.append(f"real-clock smoke run: got {got!r}, expected {want!r}")
        q.close()
    except Exception as e:      # noqa: BLE001
        out.append(f"real-clock smoke run crashed: {type(e).__name__}: {e}")
    finally:
        lib.rm_rf(d)
    return out


def run(ctx) -> RunResult:
    import logging
    res = RunResult(rule="a sequence counts as non-trivial when it uses >= 4 operation kinds and at least one poll delivered a message; "
                         "every operation of every sequence is compared (rows, DLQ, return value) with QueueM inside Coq")
    thorough = ctx.tier == "thorough"
    rng = ctx.rng
    prev_disable = logging.root.manager.disable
    logging.disable(logging.CRITICAL)
    t_start = time.time()
    dist = {"ops": {}, "results": {}, "cfg_qmax": {}, "cfg_lock_ms": {}, "streams": {}, "payload_kinds": {}}
    cases, metas = [], []
    viols: list = []

    def account(r, stream):
        dist["streams"][stream] = dist["streams"].get(stream, 0) + 1
        for o in r["ops"]:
            dist["ops"][o["op"]] = dist["ops"].get(o["op"], 0) + 1
            if o["op"] == "inject":
                dist["payload_kinds"][o["kind"]] = dist["payload_kinds"].get(o["kind"], 0) + 1
        for x in r.get("results", []):
            dist["results"][x[0]] = dist["results"].get(x[0], 0) + 1
        dist["cfg_qmax"][str(r["cfg"]["qmax"])] = dist["cfg_qmax"].get(str(r["cfg"]["qmax"]), 0) + 1
        dist["cfg_lock_ms"][str(r["cfg"]["lock_ms"])] = dist["cfg_lock_ms"].get(str(r["cfg"]["lock_ms"]), 0) + 1
        res.evaluations += len(r["ops"])
        res.traces_validated += 1
        if _nontrivial(r):
            res.distinct_nontrivial += 1

    for e in real_clock_smoke():
        res.disagreements.append({"what": "with the real clock the queue does not behave as the model (and the fake-clock runs) say", "detail": e})
    try:
        # 1. named sequential corner cases
        for name, cfg, ops in named_cases():
            r = run_sequence(cfg, None, ops)
            account(r, "named")
            cases.append(r["case"])
            metas.append({"stream": "named", "name": name, "cfg": cfg, "ops": r["ops"]})
            viols += _violations_of(r["found"], {"kind": "seq", "cfg": cfg, "tz": None, "ops": r["ops"][:r["n_body"]], "name": name})
            if len(res.samples) < 2:
                res.samples.append({"name": name, "cfg": cfg, "ops": r["ops"][:8], "results": [list(x) for x in r["results"][:8]]})
        # 2. time zones
        for name, cfg, tz, ops in tz_cases():
            cfg = dict(cfg, skew_ms=tz_skew_ms(tz))
            r = run_sequence(cfg, tz, ops)
            account(r, "tz")
            cases.append(r["case"])
            metas.append({"stream": "tz", "name": name, "cfg": cfg, "tz": tz, "ops": r["ops"]})
            viols += _violations_of(r["found"], {"kind": "seq", "cfg": cfg, "tz": tz, "ops": r["ops"][:r["n_body"]], "name": name})
        # 3. random sequential
        nseq = 4000 if thorough else 400
        for i in range(nseq):
            cfg = random_cfg(rng)
            n_ops = rng.choice([8, 15, 25, 40, 40]) if not thorough else rng.choice([10, 25, 40, 60])
            r = run_sequence(cfg, None, random_source(rng, cfg, n_ops))
            account(r, "random-sequential")
            cases.append(r["case"])
            metas.append({"stream": "random-sequential", "index": i, "cfg": cfg, "ops": r["ops"]})
            viols += _violations_of(r["found"], {"kind": "seq", "cfg": cfg, "tz": None, "ops": r["ops"][:r["n_body"]]})
            if i == 0:
                res.samples.append({"name": "random-0", "cfg": cfg, "ops": r["ops"][:10]})
        # 4. concurrent
        conc_errors = []
        conc = [(n, c, s, t, sc) for n, c, s, t, sc in conc_named()]
        nconc = 1500 if thorough else 150
        for i in range(nconc):
            c, s, t, sc = conc_random(rng)
            conc.append((f"random-{i}", c, s, t, sc))
        if thorough:
            P = {"op": "push", "delay": None}
            import itertools
            d = {"qmax": 10, "lock_ms": 60000, "retry_ms": 15000, "skew_ms": 0}
            for sched in itertools.product(range(3), repeat=5):
                conc.append(("exh3-" + "".join(map(str, sched)), d, [P, P], [[{"op": "poll"}], [{"op": "poll"}], [{"op": "poll"}]],
                             [["S", x] for x in sched]))
        for name, cfg, setup, tops, sched in conc:
            r = run_concurrent(cfg, setup, tops, sched)
            account(r, "concurrent")
            cases.append(r["case"])
            metas.append({"stream": "concurrent", "name": name, "cfg": cfg, "setup": setup, "thread_ops": tops, "schedule": sched})
            viols += _violations_of(r["found"], {"kind": "conc", "cfg": cfg, "setup": setup, "thread_ops": tops, "schedule": sched, "name": name})
            conc_errors += r["errors"]
            dist["dangling_txn"] = dist.get("dangling_txn", 0) + r.get("dangling", 0)
        for e in conc_errors[:5]:
            res.disagreements.append({"what": "scheduler/thread error in the concurrent stream", "detail": e})
        if len(res.samples) < 4 and conc:
            res.samples.append({"name": conc[0][0], "setup": conc[0][2], "thread_ops": conc[0][3], "schedule": conc[0][4]})
    finally:
        _uninstall()
        logging.disable(prev_disable)
    t_exec = time.time() - t_start
    _check_cases_in_coq(cases, "c08", res, metas)
    res.violations = viols
    res.distribution = dist
    res.notes.append(f"real-queue execution {t_exec:.1f}s, Coq evaluation {time.time() - t_start - t_exec:.1f}s")
    res.notes.append("premises of the refuted theorems as the regenerated model has them now: " + json.dumps(_premises_now()))
    res.extra["sequences"] = len(cases)
    return res


def search(ctx, broken) -> list:
    """something no longer checks: look harder on the real side (longer random sequences, more schedules)"""
    import logging
    prev_disable = logging.root.manager.disable
    logging.disable(logging.CRITICAL)
    out = []
    rng = ctx.rng
    try:
        t0 = time.time()
        i = 0
        while time.time() - t0 < (240 if ctx.tier == "thorough" else 60) and len(out) < 3:
            i += 1
            if i % 3:
                cfg = random_cfg(rng)
                r = run_sequence(cfg, None, random_source(rng, cfg, 60))
                out += [v for v in _violations_of(r["found"], {"kind": "seq", "cfg": cfg, "tz": None, "ops": r["ops"][:r["n_body"]]})]
            else:
                c, s, t, sc = conc_random(rng)
                r = run_concurrent(c, s, t, sc)
                out += [v for v in _violations_of(r["found"], {"kind": "conc", "cfg": c, "setup": s, "thread_ops": t, "schedule": sc})]
            known = {k.get("signature") for k in lib.load_known() if k.get("property") == PID}
            out = [v for v in out if v.signature not in known]      # the known ones are reported by run() already
    finally:
        _uninstall()
        logging.disable(prev_disable)
    return out


def replay(obj) -> bool:
    import logging
    r = obj["replay"]
    prev_disable = logging.root.manager.disable
    logging.disable(logging.CRITICAL)
    try:
        if r.get("kind") == "conc":
            got = run_concurrent(r["cfg"], r["setup"], r["thread_ops"], r["schedule"])
        else:
            got = run_sequence(r["cfg"], r.get("tz"), [o for o in r["ops"]], drain=True)   # body + the drain epilogue, as in run()
        sig = r.get("signature") or obj.get("signature")
        found = [s for s, _ in got["found"]]
        for s, w in got["found"]:
            print("  replay found:", s, "--", w)
        return (sig not in found) if sig else not found
    finally:
        _uninstall()
        logging.disable(prev_disable)
