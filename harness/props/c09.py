"""C09 -- a message whose handling committed is never handled again, even after restart; the in-memory
filter never reports an id it has been told about as new.

Proof side: coq/props/C09.v (models coq/model/Bloom.v, Dedup.v over the regenerated coq/gen/Gen_Dedup.v).

Correspondence (every invocation, model definitions evaluated inside Coq by vm_compute):
  A. Bloom: model filter vs. the real BloomDeduplicator on random interleavings of mark_seen / maybe_seen /
     reset / hydrate over tiny filters (collisions, rotation) with unicode / long / empty / colliding ids; the
     hash oracle of the model is read off the real _get_hash_positions (h1 = pos[0], h2 = pos[1]-pos[0] mod m;
     the theorems hold for any hash functions, so only h mod m matters).  Compared after EVERY op: the answer,
     authoritative, items_added, number of set bits, should_reset(0.7), the whole bit array.
  B. Dedup: model `run` vs. the real QueueProcessor._handle_message with a real SqliteWorkflowStore on a scratch
     database and a counting handler, on random histories of deliver / redeliver-later (any handler outcome) /
     restart (reset_deduplicator + fresh connection + new processor) / second processor / rotation (by fill
     ratio, by age, forced) / bare reset / mark by another connection / retention sweep, with
     dedup_trust_negative_cache off and on, dedup disabled, no store; part of the histories go through the real
     SqliteQueue (push, poll_one, no ack) so that the redelivered message id is the one the queue assigns.
     Compared after EVERY action: durable set, authoritative, items_added, bit array, and per delivery
     (was-durable, handler invoked, mark committed).
Monitors (implementation only, the property evaluated directly; they use a harness-owned sqlite3 connection,
not the store API under test): handler invoked on an id whose processed mark is durable; id not durable after an
uninterrupted delivery; a committed txn.mark_message_processed not visible; bloom false negative; authority
without hydrate.
"""
from __future__ import annotations

import itertools
import logging
import os
import sqlite3
import time

from harness import lib
from harness.lib import RunResult, Violation, cq_bool

PID = "C09"
COQ_TARGETS = ["props/C09.vo", "model/EngineInv.vo"]   # EngineInv: needed by the extracted oracle (engine part)
THEOREMS = [
    "Stab.props.C09.bloom_no_false_negative",
    "Stab.props.C09.bloom_bits_monotone",
    "Stab.props.C09.bloom_authority",
    "Stab.props.C09.bloom_reset_forgets",
    "Stab.props.C09.C09_skip_processed",
    "Stab.props.C09.C09_skip_processed_trust_off",
    "Stab.props.C09.C09_skip_processed_trust_on_partial",
    "Stab.props.C09.C09_handler_marks",
    "Stab.props.C09.C09_at_most_once",
    "Stab.props.C09.C09_new_is_handled",
    "Stab.props.C09.C09_skip_is_noop",
    "Stab.props.C09.C09_trust_external_writer_refuted",
    "Stab.props.C09.C09_trust_raise_after_mark_refuted",
]
TRUSTED_BASE = [
    "hash functions are arbitrary functions id -> N (Section variables h1 h2): MD5/SHA-1/hashlib are not in the proofs; "
    "distinct id strings are distinct utf-8 byte strings and distinct SQLite TEXT keys (ids modelled as N)",
    "filter size m > 0 and bytearray length (m+7)//8 (what BloomDeduplicator.__init__ builds from its float formulas; "
    "checked on every filter the harness creates) -- premise `bwf` / `0 < m` of the theorems",
    "SQLite: INSERT OR IGNORE on the primary key inserts iff absent; a committed row is visible to every later SELECT on any "
    "connection; SELECT ... LIMIT n returns min(n, count) rows (durable set modelled as a duplicate-free list)",
    "fill_ratio > 0.7 is modelled as the exact rational comparison 10*set_bits > 7*size (float division agrees for every "
    "size below ~9e14 bits)",
    "harness/tr/dedup.py reads the guards, the mark_seen placement, the hydration limit test and the bit arithmetic off the AST",
]
ASSUMPTIONS = [
    "one _handle_message at a time per process (sequential model): interleavings of the worker threads of one process around "
    "reset()/hydrate() are not modelled",
    "dedup_trust_negative_cache=True: single-writer premise as documented by the option (premise single_writer of the theorem); "
    "additionally no handler raises after committing its processed mark unless mark_seen precedes the handler "
    "(NOT documented: known finding, see known_findings.d/C09.json)",
    "the age half of should_reset (time.monotonic) is an oracle flag of each delivery",
    "retention sweep (off by default) removes ids from the durable set; a swept id is new again by design (excluded from the "
    "at-most-once counter only)",
    "engine handlers commit txn.mark_message_processed in the same transaction as their effects (C02's commit lists); here the "
    "handler is a parameter with outcomes ok / ok+own mark / raise before commit / raise after commit",
]

KNOWN_SIG = "trust-on:rehandled-after-post-commit-raise"

# ------------------------------------------------------------------------------------------------------
# id material
# ------------------------------------------------------------------------------------------------------

_UNI = ["消息-一", "привет", "\U0001F600\U0001F4A5", "é", "é", "مرحبا",
        "​", "﻿bom", "à́̂", "\U00010348", "ß", "SS", " line"]


def _rand_id(rng, for_db: bool) -> tuple[str, str]:
    """(category, id string).  ids for the database avoid NUL (sqlite C-string pitfalls are not C09's subject)."""
    c = rng.random()
    if c < 0.30:
        return "rowid", str(rng.randrange(1, 5000))
    if c < 0.45:
        return "uuid", "%08x-%04x-%04x-%04x-%012x" % (rng.getrandbits(32), rng.getrandbits(16), rng.getrandbits(16),
                                                        rng.getrandbits(16), rng.getrandbits(48))
    if c < 0.65:
        return "unicode", rng.choice(_UNI) + (str(rng.randrange(100)) if rng.random() < 0.6 else "")
    if c < 0.75:
        return "long", "".join(rng.choice("abcé一xyz0123456789-_ ") for _ in range(rng.choice([300, 1000, 4000])))
    if c < 0.80:
        return "empty", ""
    if c < 0.88:
        return "space", rng.choice([" ", "  ", "\t", "\n", " 1", "1 ", "01", "+1", "1.0"])
    if c < 0.92 and not for_db:
        return "nul", rng.choice(["\x00", "a\x00b", "\x00\x00"])
    return "ascii", "".join(rng.choice("abcdefghijklmnopqrstuvwxyzABCXYZ:/._-") for _ in range(rng.randrange(1, 24)))


def _id_pool(rng, n: int, for_db: bool) -> tuple[list[str], list[str]]:
    ids, cats = [], []
    guard = 0
    while len(ids) < n and guard < 1000:
        guard += 1
        cat, s = _rand_id(rng, for_db)
        if s not in ids:
            ids.append(s)
            cats.append(cat)
    return ids, cats


_FILTER_PARAMS = [(1, 0.9), (1, 0.5), (2, 0.5), (2, 0.3), (3, 0.3), (4, 0.3), (4, 0.1), (5, 0.5), (6, 0.1), (8, 0.05),
                  (8, 0.3), (12, 0.2), (16, 0.01), (30, 0.1), (3, 0.001), (50, 0.3)]


def _real_bloom(n, p):
    from stabilize.queue.dedup import BloomDeduplicator
    return BloomDeduplicator(expected_items=n, false_positive_rate=p)


def _oracle(f, s: str) -> tuple[int, int, list[int]]:
    """h1, h2 (mod m) read off the real _get_hash_positions, plus the positions themselves."""
    pos = list(f._get_hash_positions(s))
    m = f._size
    h1 = pos[0] if pos else 0
    h2 = (pos[1] - pos[0]) % m if len(pos) > 1 else 0
    return h1, h2, pos


def _geometry_ok(f) -> str | None:
    if not (isinstance(f._size, int) and f._size >= 1 and isinstance(f._num_hashes, int) and f._num_hashes >= 1):
        return f"size={f._size!r} k={f._num_hashes!r}"
    if len(f._bit_array) != (f._size + 7) // 8:
        return f"len(bit_array)={len(f._bit_array)} size={f._size}"
    return None


def _popcount(f) -> int:
    return sum(bin(b).count("1") for b in f._bit_array)


def _bits_int(f) -> int:
    return int.from_bytes(bytes(f._bit_array), "little")


def cq_N(n: int) -> str:
    return f"{n}%N"


def cq_Nlist(xs) -> str:
    return "[" + "; ".join(cq_N(x) for x in xs) + "]"


# ------------------------------------------------------------------------------------------------------
# A. Bloom differential
# ------------------------------------------------------------------------------------------------------

def _find_colliding(f, rng, want: int = 2) -> list[str]:
    """ids with identical position sets in this (tiny) filter -- guaranteed total collisions."""
    seen: dict[tuple, str] = {}
    for i in range(4000):
        s = "c%d" % i
        key = tuple(sorted(set(f._get_hash_positions(s))))
        if key in seen:
            return [seen[key], s]
        seen[key] = s
    return []


def _find_degenerate(f) -> str | None:
    """an id whose k positions are all the same bit (h2 = 0 mod m)."""
    if f._num_hashes < 2:
        return None
    for i in range(4000):
        s = "z%d" % i
        if len(set(f._get_hash_positions(s))) == 1:
            return s
    return None


def gen_bloom_case(rng, corner: str | None = None) -> dict:
    n, p = rng.choice(_FILTER_PARAMS)
    if corner == "one-bit":
        n, p = 1, 0.9
    f = _real_bloom(n, p)
    ids, cats = _id_pool(rng, rng.randrange(2, 12), for_db=False)
    if corner == "collide" or rng.random() < 0.25:
        for s in _find_colliding(f, rng):
            if s not in ids:
                ids.append(s); cats.append("collide")
    if corner == "degenerate" or rng.random() < 0.15:
        s = _find_degenerate(f)
        if s and s not in ids:
            ids.append(s); cats.append("degenerate")
    ops = []
    L = rng.randrange(4, 45)
    if corner == "mark-reset-query":
        ops = [["mark", 0], ["query", 0], ["reset"], ["query", 0], ["hydrate", [0, 1]], ["query", 1], ["query", 0]]
    else:
        for _ in range(L):
            c = rng.random()
            if c < 0.38:
                ops.append(["mark", rng.randrange(len(ids))])
            elif c < 0.78:
                ops.append(["query", rng.randrange(len(ids))])
            elif c < 0.86:
                ops.append(["reset"])
            else:
                k = rng.randrange(0, min(len(ids), 6) + 1)
                ops.append(["hydrate", [rng.randrange(len(ids)) for _ in range(k)]])
    return {"kind": "bloom", "n": n, "p": p, "ids": ids, "cats": cats, "ops": ops}


def exec_bloom_case(case: dict) -> dict:
    """Run the ops on the real object; returns observations + monitor failures."""
    f = _real_bloom(case["n"], case["p"])
    ids = case["ids"]
    geo = _geometry_ok(f)
    table, poss = [], []
    for s in ids:
        h1, h2, pos = _oracle(f, s)
        table.append((h1, h2)); poss.append(pos)
    obs, fails = [], []
    told: set[int] = set()
    hydrated_since_reset = False
    for step, op in enumerate(case["ops"]):
        if op[0] == "mark":
            f.mark_seen(ids[op[1]]); told.add(op[1]); ans = None
        elif op[0] == "query":
            ans = bool(f.maybe_seen(ids[op[1]]))
        elif op[0] == "reset":
            f.reset(); told.clear(); hydrated_since_reset = False; ans = None
        else:
            f.hydrate([ids[i] for i in op[1]]); told.update(op[1]); hydrated_since_reset = True; ans = None
        auth = bool(f.authoritative)
        if ans is None:
            ans = auth
        obs.append((ans, auth, int(f.items_added), _popcount(f), bool(f.should_reset(threshold=0.7)), _bits_int(f)))
        # monitors: the property on the real object
        for i in sorted(told):
            if not f.maybe_seen(ids[i]):
                fails.append(("bloom:false-negative", step, i))
                break
        if auth and not hydrated_since_reset:
            fails.append(("bloom:authority-without-hydrate", step, -1))
    return {"m": f._size, "k": f._num_hashes, "cap": f.expected_items, "table": table, "positions": poss,
            "obs": obs, "fails": fails, "geometry": geo}


def bloom_case_term(case: dict, ex: dict) -> str:
    ops = []
    for op in case["ops"]:
        if op[0] == "mark":
            ops.append(f"BMark {cq_N(op[1])}")
        elif op[0] == "query":
            ops.append(f"BQuery {cq_N(op[1])}")
        elif op[0] == "reset":
            ops.append("BReset")
        else:
            ops.append(f"BHydrate {cq_Nlist(op[1])}")
    tbl = "[" + "; ".join(f"({cq_N(a)}, {cq_N(b)})" for a, b in ex["table"]) + "]"
    obs = "[" + "; ".join(f"({cq_bool(a)}, {cq_bool(b)}, {cq_N(c)}, {cq_N(d)}, {cq_bool(e)}, {cq_N(g)})"
                          for a, b, c, d, e, g in ex["obs"]) + "]"
    return f"(({cq_N(ex['m'])}, {ex['k']}%nat, {cq_N(ex['cap'])}), {tbl}, [{'; '.join(ops)}], {obs})"


# ------------------------------------------------------------------------------------------------------
# B. Dedup differential
# ------------------------------------------------------------------------------------------------------

OUTCOMES = ["ok", "ok_own", "raise_before", "raise_after"]


class _HandlerRaise(Exception):
    pass


def gen_dedup_case(rng, corner: str | None = None) -> dict:
    n, p = rng.choice(_FILTER_PARAMS[:14])
    enable = rng.random() < 0.92
    trust = rng.random() < 0.55
    has_store = rng.random() < 0.95
    queue_mode = has_store and rng.random() < 0.25
    nid = rng.randrange(2, 9)
    if queue_mode:
        ids, cats = [str(i + 1) for i in range(nid)], ["queue-rowid"] * nid
    else:
        ids, cats = _id_pool(rng, nid, for_db=True)
    d0 = sorted(rng.sample(range(nid), rng.randrange(0, nid))) if (has_store and not queue_mode and rng.random() < 0.4) else []
    external_ok = rng.random() < 0.35
    sweep_ok = rng.random() < 0.2
    raise_after_ok = rng.random() < 0.5
    hist = []
    L = rng.randrange(6, 40)
    bias_id = rng.randrange(nid)
    for _ in range(L):
        c = rng.random()
        if c < 0.70:
            i = bias_id if rng.random() < 0.35 else rng.randrange(nid)
            mid = None if (not queue_mode and rng.random() < 0.04) else i
            r = rng.random()
            if not has_store:
                o = "ok" if r < 0.8 else "raise_before"
            elif r < 0.55:
                o = "ok"
            elif r < 0.75:
                o = "ok_own"
            elif r < 0.88 or not raise_after_ok:
                o = "raise_before"
            else:
                o = "raise_after"
            if mid is None and o in ("ok_own", "raise_after"):
                o = "ok"
            hist.append(["deliver", mid, rng.random() < 0.08, o])
        elif c < 0.80:
            hist.append(["restart"])
        elif c < 0.84:
            hist.append(["newproc"])
        elif c < 0.90:
            hist.append(["rotate"])
        elif c < 0.93:
            hist.append(["reset"])
        elif c < 0.97 and external_ok and has_store:
            hist.append(["external", rng.randrange(nid)])
        elif sweep_ok and has_store:
            hist.append(["sweep"])
        else:
            hist.append(["deliver", rng.randrange(nid), False, "ok"])
    case = {"kind": "dedup", "n": n, "p": p, "enable": enable, "trust": trust, "has_store": has_store,
            "queue_mode": queue_mode, "ids": ids, "cats": cats, "d0": d0, "hist": hist}
    if corner:
        case.update(_CORNERS[corner])
        case["cats"] = ["corner:" + corner] * len(case["ids"])
    return case


_CORNERS = {
    # the known finding, deterministically (first case of every run)
    "raise-after-then-redeliver": dict(n=4, p=0.3, enable=True, trust=True, has_store=True, queue_mode=False, ids=["m-1", "m-2"], d0=[],
                                       hist=[["deliver", 0, False, "raise_after"], ["deliver", 0, False, "ok"], ["deliver", 1, False, "ok"]]),
    "same-with-trust-off": dict(n=4, p=0.3, enable=True, trust=False, has_store=True, queue_mode=False, ids=["m-1", "m-2"], d0=[],
                                hist=[["deliver", 0, False, "raise_after"], ["deliver", 0, False, "ok"], ["deliver", 1, False, "ok"]]),
    "restart-bypass": dict(n=4, p=0.3, enable=True, trust=True, has_store=True, queue_mode=False, ids=["a", "b", "c"], d0=[],
                           hist=[["deliver", 0, False, "ok"], ["deliver", 1, False, "ok_own"], ["restart"], ["deliver", 0, False, "ok"],
                                 ["deliver", 1, False, "ok"], ["deliver", 2, False, "ok"], ["restart"], ["deliver", 2, False, "ok"]]),
    "over-capacity-restart": dict(n=2, p=0.3, enable=True, trust=True, has_store=True, queue_mode=False, ids=["a", "b", "c", "d"], d0=[0, 1, 2],
                                  hist=[["deliver", 0, False, "ok"], ["deliver", 2, False, "ok"], ["deliver", 3, False, "ok"], ["rotate"],
                                        ["deliver", 3, False, "ok"], ["deliver", 1, True, "ok"]]),
    "rotation-by-fill": dict(n=1, p=0.5, enable=True, trust=True, has_store=True, queue_mode=False, ids=["a", "b", "c", "d", "e"], d0=[],
                             hist=[["deliver", i, False, "ok"] for i in range(5)] + [["deliver", i, False, "ok"] for i in range(5)]),
    "rotation-by-age": dict(n=8, p=0.05, enable=True, trust=True, has_store=True, queue_mode=False, ids=["a", "b"], d0=[],
                            hist=[["deliver", 0, False, "ok"], ["deliver", 1, True, "ok"], ["deliver", 0, True, "ok"], ["deliver", 1, False, "ok"]]),
    "external-writer": dict(n=4, p=0.3, enable=True, trust=True, has_store=True, queue_mode=False, ids=["a", "b"], d0=[],
                            hist=[["deliver", 1, False, "ok"], ["external", 0], ["deliver", 0, False, "ok"]]),
    "external-writer-trust-off": dict(n=4, p=0.3, enable=True, trust=False, has_store=True, queue_mode=False, ids=["a", "b"], d0=[],
                                      hist=[["deliver", 1, False, "ok"], ["external", 0], ["deliver", 0, False, "ok"]]),
    "queue-redelivery": dict(n=4, p=0.3, enable=True, trust=False, has_store=True, queue_mode=True, ids=["1", "2", "3"], d0=[],
                             hist=[["deliver", 0, False, "ok"], ["deliver", 0, False, "ok"], ["restart"], ["deliver", 0, False, "ok"],
                                   ["deliver", 1, False, "raise_before"], ["deliver", 1, False, "ok_own"], ["deliver", 1, False, "ok"],
                                   ["deliver", 2, False, "ok"], ["rotate"], ["deliver", 2, False, "ok"]]),
    "dedup-disabled": dict(n=4, p=0.3, enable=False, trust=False, has_store=True, queue_mode=False, ids=["a"], d0=[],
                           hist=[["deliver", 0, False, "ok_own"], ["deliver", 0, False, "ok"]]),
    "no-message-id": dict(n=4, p=0.3, enable=True, trust=True, has_store=True, queue_mode=False, ids=["a"], d0=[],
                          hist=[["deliver", None, False, "ok"], ["deliver", None, False, "ok"], ["deliver", 0, False, "ok"]]),
    "sweep": dict(n=4, p=0.3, enable=True, trust=True, has_store=True, queue_mode=False, ids=["a", "b"], d0=[],
                  hist=[["deliver", 0, False, "ok"], ["sweep"], ["deliver", 0, False, "ok"], ["deliver", 0, False, "ok"]]),
}


def small_scope_cases(depth: int):
    """Every history of length <= depth over 2 ids and the whole action alphabet, trust on and off (tiny filter)."""
    alphabet = [["deliver", i, False, o] for i in (0, 1) for o in OUTCOMES]
    alphabet += [["deliver", 0, True, "ok"], ["restart"], ["newproc"], ["rotate"], ["reset"], ["external", 0], ["sweep"]]
    for trust in (False, True):
        for L in range(1, depth + 1):
            for h in itertools.product(alphabet, repeat=L):
                # a history that never delivers id 0 twice cannot exercise the property: keep those with >= 1 delivery of id 0
                if not any(a[0] == "deliver" and a[1] == 0 for a in h):
                    continue
                yield {"kind": "dedup", "n": 1, "p": 0.5, "enable": True, "trust": trust, "has_store": True, "queue_mode": False,
                       "ids": ["a", "b"], "cats": ["small-scope"] * 2, "d0": [], "hist": [list(a) for a in h] + [["deliver", 0, False, "ok"]]}


class _World:
    """The real engine pieces for one case: scratch DB, store, queue, processor, counting handler."""
    serial = 0

    def __init__(self, case: dict, root):
        lib.ensure_repo_on_path()
        self.case = case
        _World.serial += 1
        self.path = str(root / ("c%06d.db" % _World.serial))
        for ext in ("", "-wal", "-shm", "-journal"):
            try:
                os.unlink(self.path + ext)
            except FileNotFoundError:
                pass
        self.url = "sqlite:///" + self.path
        self.counts: dict = {}
        self.mode = "ok"
        self.raw = None
        self.proc = None
        self.store = None
        self.queue = None

    # -- harness-owned view of the durable set (never through the API under test)
    def durable(self) -> list[str]:
        return [r[0] for r in self.raw.execute("SELECT message_id FROM processed_messages ORDER BY rowid").fetchall()]

    def start(self, first: bool):
        from stabilize.persistence.connection import ConnectionManager, SingletonMeta
        from stabilize.persistence.sqlite.store.store import SqliteWorkflowStore
        from stabilize.queue.dedup import get_deduplicator, reset_deduplicator
        from stabilize.queue.sqlite.queue import SqliteQueue
        SingletonMeta.reset(ConnectionManager)
        store = SqliteWorkflowStore(self.url, create_tables=True)
        self.queue = SqliteQueue(self.url, table_name="queue_messages")
        self.store = store
        if self.raw is None:
            self.raw = sqlite3.connect(self.path, timeout=30, isolation_level=None)
        if first:
            from stabilize.persistence.sqlite.operations import mark_message_processed
            # the execution the processed records belong to: absent, live, or already FINISHED (a finished workflow's
            # messages can still be redelivered - e.g. an un-acked CompleteWorkflow - and must still be recognised).
            # A function of the case, no random draw: the case stream is unchanged.
            est = ["absent", "RUNNING", "SUCCEEDED", "TERMINAL", "CANCELED"][(len(self.case["ids"]) + len(self.case["d0"])) % 5]
            self.exec_status = est
            if est != "absent":
                self.raw.execute("INSERT OR IGNORE INTO pipeline_executions (id, type, application, name, status) "
                                 "VALUES ('e', 'PIPELINE', 'verif', 'verif', ?)", (est,))
            for k, i in enumerate(self.case["d0"]):   # processed by an earlier life of the process
                mark_message_processed(self.raw_txn(), self.case["ids"][i], "earlier", ("e" if k % 2 == 0 else None))
            if self.case["queue_mode"]:
                from stabilize.queue.messages import StartWorkflow
                for i, _ in enumerate(self.case["ids"]):
                    self.queue.push(StartWorkflow(execution_id="e%d" % i))
        reset_deduplicator()
        get_deduplicator(expected_items=self.case["n"], false_positive_rate=self.case["p"])
        self.new_processor()

    def raw_txn(self):
        # a second connection in python's default (deferred) transaction mode for the real operations.* helpers
        if not hasattr(self, "_raw2") or self._raw2 is None:
            self._raw2 = sqlite3.connect(self.path, timeout=30)
        return self._raw2

    def new_processor(self):
        from stabilize.queue.messages import StartWorkflow
        from stabilize.queue.processor.config import QueueProcessorConfig
        from stabilize.queue.processor.handler_base import MessageHandler
        from stabilize.queue.processor.processor import QueueProcessor
        world = self

        class Counting(MessageHandler):
            @property
            def message_type(self):
                return StartWorkflow

            def handle(self, message):
                mid = message.message_id
                world.counts[mid] = world.counts.get(mid, 0) + 1
                if world.mode == "raise_before":
                    raise _HandlerRaise("before commit")
                if world.mode in ("ok_own", "raise_after"):
                    with world.store.transaction(world.queue) as txn:
                        txn.mark_message_processed(message_id=mid, handler_type="Counting", execution_id="e")
                if world.mode == "raise_after":
                    raise _HandlerRaise("after commit")

        cfg = QueueProcessorConfig(enable_deduplication=self.case["enable"], dedup_trust_negative_cache=self.case["trust"])
        self.proc = QueueProcessor(self.queue, config=cfg, store=self.store if self.case["has_store"] else None)
        self.proc.register_handler(Counting())

    def dedup(self):
        from stabilize.queue.dedup import get_deduplicator
        return get_deduplicator()

    def poll_row(self, rowid: int):
        # +-2 days: robust against the local-time shift of poll_one's datetime('now', 'utc')
        self.raw.execute("UPDATE queue_messages SET deliver_at = datetime('now', '+2 days'), locked_until = NULL, attempts = 0")
        self.raw.execute("UPDATE queue_messages SET deliver_at = datetime('now', '-2 days') WHERE id = ?", (rowid,))
        return self.queue.poll_one()

    def close(self):
        from stabilize.persistence.connection import ConnectionManager, SingletonMeta
        from stabilize.queue.dedup import reset_deduplicator
        for c in (self.raw, getattr(self, "_raw2", None)):
            try:
                if c is not None:
                    c.close()
            except Exception:
                pass
        SingletonMeta.reset(ConnectionManager)
        reset_deduplicator()


def exec_dedup_case(case: dict, root) -> dict:
    """Run the history on the real engine.  Returns observations (for the model comparison), monitor failures."""
    from stabilize.queue.messages import StartWorkflow
    ids = case["ids"]
    index = {s: i for i, s in enumerate(ids)}
    w = _World(case, root)
    obs, fails, notes = [], [], []
    stats = {"deliveries": 0, "skips": 0, "invocations": 0, "redeliveries_of_durable": 0, "premise_excluded": 0,
             "rotations": 0, "restarts": 0}
    try:
        w.start(first=True)
        f = w.dedup()
        geo = _geometry_ok(f)
        m, k, cap = f._size, f._num_hashes, f.expected_items
        table = [_oracle(f, s)[:2] for s in ids]
        external_seen = False
        pending_raise_after: set[int] = set()   # ids durable through a post-commit raise, not yet re-hydrated
        commits: dict[int, int] = {}
        for step, a in enumerate(case["hist"]):
            entries = []
            if a[0] == "deliver":
                mid_i, aged, o = a[1], a[2], a[3]
                stats["deliveries"] += 1
                d = w.dedup()
                if aged:
                    d._creation_time = time.monotonic() - d._max_age_seconds - 60.0
                before = set(w.durable())
                if mid_i is None:
                    msg, key = StartWorkflow(execution_id="e"), None
                elif case["queue_mode"]:
                    msg = w.poll_row(mid_i + 1)
                    if msg is None or msg.message_id != ids[mid_i]:
                        fails.append(("queue:redelivery-changed-id", step, mid_i,
                                      f"polled {getattr(msg, 'message_id', None)!r}, expected {ids[mid_i]!r}"))
                        msg = StartWorkflow(execution_id="e", message_id=ids[mid_i])
                    key = msg.message_id
                else:
                    msg, key = StartWorkflow(execution_id="e", message_id=ids[mid_i]), ids[mid_i]
                w.mode = o
                c0 = w.counts.get(key, 0)
                fill0 = d.should_reset(threshold=0.7)
                raised = None
                try:
                    w.proc._handle_message(msg)
                except _HandlerRaise:
                    raised = "handler"
                except Exception as e:  # anything else is the code under test failing
                    raised = "other:" + type(e).__name__
                    notes.append(f"step {step}: _handle_message raised {type(e).__name__}: {str(e)[:120]}")
                inv = w.counts.get(key, 0) > c0
                after = set(w.durable())
                d2 = w.dedup()
                if d2 is d and d._creation_time < time.monotonic() - 3600:
                    d._creation_time = time.monotonic()      # the age poke is per delivery
                was = key is not None and key in before
                com = bool(inv and key is not None and o != "raise_before" and key in after)
                entries.append((was, inv, com))
                stats["invocations"] += int(inv)
                stats["skips"] += int(not inv)
                stats["redeliveries_of_durable"] += int(was)
                # ---- monitors
                dedup_on = case["enable"] and case["has_store"] and key is not None
                if dedup_on and was and inv:
                    if case["trust"] and external_seen:
                        stats["premise_excluded"] += 1
                    elif case["trust"] and mid_i in pending_raise_after:
                        fails.append((KNOWN_SIG, step, mid_i, "handler invoked again on an id whose processed mark the handler "
                                      "itself committed before raising (filter authoritative, id never marked in it)"))
                    else:
                        fails.append(("rehandled:trust=%s" % ("on" if case["trust"] else "off"), step, mid_i,
                                      "handler invoked on an id that is in processed_messages"))
                if dedup_on and o in ("ok", "ok_own") and raised is None and key not in after:
                    fails.append(("handler-marks:missing", step, mid_i, "id not in processed_messages after an uninterrupted delivery"))
                if case["has_store"] and inv and o in ("ok_own", "raise_after") and key is not None and key not in after:
                    fails.append(("txn-mark:missing", step, mid_i, "txn.mark_message_processed committed but the id is not durable"))
                if raised and raised.startswith("other:"):
                    fails.append(("handle-message:unexpected-exception", step, mid_i, raised))
                if com and mid_i is not None:
                    commits[mid_i] = commits.get(mid_i, 0) + 1
                    if commits[mid_i] > 1 and not (case["trust"] and external_seen) and dedup_on \
                            and not any(x[0] in (KNOWN_SIG,) or x[0].startswith("rehandled") for x in fails):
                        fails.append(("at-most-once:count=%d" % commits[mid_i], step, mid_i, "second committed invocation"))
                if inv and fill0 and case["enable"] and key is not None:
                    stats["rotations"] += 1             # reset() + _hydrate_deduplicator() ran before the handler
                    pending_raise_after.clear()
                if inv and mid_i is not None:
                    if o == "raise_after":
                        pending_raise_after.add(mid_i)
                    elif o in ("ok", "ok_own"):
                        pending_raise_after.discard(mid_i)      # the late mark_seen told the filter
            elif a[0] == "restart":
                stats["restarts"] += 1
                w.start(first=False)
                pending_raise_after.clear()
            elif a[0] == "newproc":
                items0 = w.dedup().items_added
                w.new_processor()
                if w.dedup().items_added != items0:     # __init__ really hydrated (it declines over capacity: filter unchanged)
                    pending_raise_after.clear()
            elif a[0] == "rotate":
                w.dedup().reset()
                w.proc._hydrate_deduplicator()
                pending_raise_after.clear()
            elif a[0] == "reset":
                w.dedup().reset()
                pending_raise_after.clear()
            elif a[0] == "external":
                from stabilize.persistence.sqlite.operations import mark_message_processed
                mark_message_processed(w.raw_txn(), ids[a[1]], "other-worker", None)
                external_seen = True
            elif a[0] == "sweep":
                w.store.cleanup_old_processed_messages(max_age_hours=-48.0)
                commits.clear()
                pending_raise_after.clear()
            f = w.dedup()
            dur = w.durable()
            unknown = [s for s in dur if s not in index]
            if unknown:
                notes.append(f"step {step}: unexpected ids in processed_messages: {unknown[:3]!r}")
            obs.append((sorted(index[s] for s in dur if s in index), bool(f.authoritative), int(f.items_added), _bits_int(f), entries))
        return {"m": m, "k": k, "cap": cap, "table": table, "obs": obs, "fails": fails, "notes": notes, "geometry": geo, "stats": stats}
    finally:
        w.close()
        for ext in ("", "-wal", "-shm", "-journal"):
            try:
                os.unlink(w.path + ext)
            except FileNotFoundError:
                pass


def _outcome_term(o: str) -> str:
    return {"ok": "(HOk false)", "ok_own": "(HOk true)", "raise_before": "HRaiseBefore", "raise_after": "HRaiseAfterMark"}[o]


def dedup_case_term(case: dict, ex: dict) -> str:
    acts = []
    for a in case["hist"]:
        if a[0] == "deliver":
            mid = "None" if a[1] is None else f"(Some {cq_N(a[1])})"
            acts.append(f"Deliver {mid} {cq_bool(a[2])} {_outcome_term(a[3])}")
        elif a[0] == "external":
            acts.append(f"ExternalMark {cq_N(a[1])}")
        else:
            acts.append({"restart": "Restart", "newproc": "NewProcessor", "rotate": "Rotate", "reset": "ResetOnly", "sweep": "Sweep"}[a[0]])
    tbl = "[" + "; ".join(f"({cq_N(a)}, {cq_N(b)})" for a, b in ex["table"]) + "]"
    obs = []
    for dur, auth, items, bits, entries in ex["obs"]:
        es = "[" + "; ".join(f"({cq_bool(x)}, {cq_bool(y)}, {cq_bool(z)})" for x, y, z in entries) + "]"
        obs.append(f"({cq_Nlist(dur)}, {cq_bool(auth)}, {cq_N(items)}, {cq_N(bits)}, {es})")
    return (f"(({cq_bool(case['enable'])}, {cq_bool(case['trust'])}, {cq_bool(case['has_store'])}), "
            f"({cq_N(ex['m'])}, {ex['k']}%nat, {cq_N(ex['cap'])}), {cq_Nlist(case['d0'])}, {tbl}, "
            f"[{'; '.join(acts)}], [{'; '.join(obs)}])")


# ------------------------------------------------------------------------------------------------------
# driver
# ------------------------------------------------------------------------------------------------------

def _violation(case: dict, fail: tuple) -> Violation:
    sig, step = fail[0], fail[1]
    what = f"{sig} at step {step}: " + (fail[3] if len(fail) > 3 else "")
    if case["kind"] == "bloom":
        what = f"{sig}: BloomDeduplicator(expected_items={case['n']}, false_positive_rate={case['p']}) after op {step} " \
               f"({case['ops'][step]}) id index {fail[2]}"
    else:
        what = (f"{sig}: enable_deduplication={case['enable']} dedup_trust_negative_cache={case['trust']} "
                f"filter({case['n']},{case['p']}) history step {step} {case['hist'][step]}: " + (fail[3] if len(fail) > 3 else ""))
    rep = dict(case)
    rep["fail"] = list(fail)
    rep["how"] = ("harness.props.c09.replay: re-runs this history on the real QueueProcessor._handle_message / BloomDeduplicator "
                  "and re-evaluates the monitors")
    return Violation(what=what, signature=sig, replay=rep)


def _quiet():
    logging.disable(logging.CRITICAL)


def _loud():
    logging.disable(logging.NOTSET)


def _counts(d: dict, k: str, n: int = 1):
    d[k] = d.get(k, 0) + n


def run_impl(ctx, n_bloom: int, n_dedup: int, with_terms: bool = True, small_depth: int = 0) -> dict:
    """Execute generated cases on the implementation; returns cases, executions, Coq terms, violations, distribution."""
    lib.ensure_repo_on_path()
    rng = ctx.rng
    root = lib.scratch_dir("c09")
    out = {"bloom": [], "dedup": [], "violations": [], "dist": {}, "notes": [], "positions": []}
    dist = out["dist"]
    _quiet()
    try:
        corners_b = ["mark-reset-query", "collide", "degenerate", "one-bit"]
        for i in range(n_bloom):
            case = gen_bloom_case(rng, corners_b[i] if i < len(corners_b) else None)
            ex = exec_bloom_case(case)
            out["bloom"].append((case, ex, bloom_case_term(case, ex) if with_terms else ""))
            for op in case["ops"]:
                _counts(dist, "bloom_op:" + op[0])
            for c in case["cats"]:
                _counts(dist, "bloom_id:" + c)
            _counts(dist, "bloom_filter_bits<=16" if ex["m"] <= 16 else "bloom_filter_bits<=64" if ex["m"] <= 64 else "bloom_filter_bits>64")
            if any(o[4] for o in ex["obs"]):
                _counts(dist, "bloom_cases_reaching_rotation_threshold")
            if ex["geometry"]:
                out["violations"].append(_violation(case, ("bloom:bad-geometry", 0, -1, ex["geometry"])))
            for fl in ex["fails"][:1]:
                out["violations"].append(_violation(case, fl))
            for s, pos in zip(case["ids"], ex["positions"]):
                out["positions"].append((ex["m"], ex["k"], s, pos))
        corners_d = list(_CORNERS)
        small = list(small_scope_cases(small_depth)) if small_depth else []
        dist["dedup_small_scope_exhaustive_cases"] = len(small)
        for i in range(n_dedup + len(small)):
            if i < n_dedup:
                case = gen_dedup_case(rng, corners_d[i] if i < len(corners_d) else None)
            else:
                case = small[i - n_dedup]
            ex = exec_dedup_case(case, root)
            out["dedup"].append((case, ex, dedup_case_term(case, ex) if with_terms else ""))
            for a in case["hist"]:
                _counts(dist, "dedup_action:" + (a[0] if a[0] != "deliver" else "deliver:" + a[3]))
            _counts(dist, "dedup_cfg:" + ("disabled" if not case["enable"] else "no-store" if not case["has_store"]
                                          else "trust-on" if case["trust"] else "trust-off"))
            if case["queue_mode"]:
                _counts(dist, "dedup_cases_through_real_queue")
            for c in set(case["cats"]):
                _counts(dist, "dedup_id:" + c)
            for k2, v in ex["stats"].items():
                _counts(dist, "dedup_" + k2, v)
            if any(o[1] for o in ex["obs"]):
                _counts(dist, "dedup_cases_with_authoritative_filter")
            if ex["geometry"]:
                out["violations"].append(_violation(case, ("bloom:bad-geometry", 0, -1, ex["geometry"])))
            seen_sig = set()
            for fl in ex["fails"]:
                if fl[0] not in seen_sig:
                    seen_sig.add(fl[0])
                    out["violations"].append(_violation(case, fl))
            out["notes"] += ex["notes"][:2]
    finally:
        _loud()
        lib.rm_rf(root)
    return out


def run(ctx) -> RunResult:
    thorough = ctx.tier == "thorough"
    n_bloom, n_dedup = (10000, 8000) if thorough else (500, 400)
    res = RunResult(rule="one case = one operation sequence (bloom: 4-44 ops on a real BloomDeduplicator; dedup: 6-39 actions on a real "
                         "QueueProcessor + SqliteWorkflowStore; random + every history of length <= 2 (quick) / 3 (thorough) over 2 ids and the 15-action "
                         "alphabet, followed by one more delivery), compared with the model after every op/action; non-trivial = bloom case "
                         "with >= 1 query of a told id and >= 1 query of an untold id, or dedup case with >= 1 redelivery of a durable id")
    t0 = time.time()
    impl = run_impl(ctx, n_bloom, n_dedup, small_depth=3 if thorough else 2)
    t_impl = time.time() - t0
    res.violations += impl["violations"]

    # ---- model side, inside Coq
    t0 = time.time()
    req = "From Stab.model Require Import Bloom Dedup."
    bterms = [t for _, _, t in impl["bloom"]]
    dterms = [t for _, _, t in impl["dedup"]]
    failb, errb = lib.coq_failing_indices(req, "check_bloom_case", "(N * nat * N) * list (N * N) * list bop * list bobs",
                                          bterms, "c09_bloom", shard=125)
    faild, errd = lib.coq_failing_indices(req, "check_dedup_case",
                                          "(bool * bool * bool) * (N * nat * N) * list N * list (N * N) * list action * list dobs",
                                          dterms, "c09_dedup", shard=100)
    # positions: the model's formula on the oracle values vs. the real list, and (informational) on the raw hashlib values
    import hashlib
    pterms, raw_agree, raw_total = [], 0, 0
    seen_p = set()
    for m, k, s, pos in impl["positions"]:
        key = (m, k, s)
        if key in seen_p or len(pterms) >= (4000 if thorough else 1200):
            continue
        seen_p.add(key)
        h1 = pos[0] if pos else 0
        h2 = (pos[1] - pos[0]) % m if len(pos) > 1 else 0
        pterms.append(f"(({cq_N(m)}, {k}%nat), ({cq_N(h1)}, {cq_N(h2)}), {cq_Nlist(pos)})")
        b = s.encode("utf-8")
        H1, H2 = int(hashlib.md5(b).hexdigest(), 16), int(hashlib.sha1(b).hexdigest(), 16)
        raw_total += 1
        raw_agree += int([(H1 + i * H2) % m for i in range(k)] == pos)
        if len(pterms) % 7 == 0:   # a sample with the raw 128/160-bit values through the Coq formula as well
            pterms.append(f"(({cq_N(m)}, {k}%nat), ({cq_N(H1)}, {cq_N(H2)}), {cq_Nlist([(H1 + i * H2) % m for i in range(k)])})")
    failp, errp = lib.coq_failing_indices(req, "check_positions_case", "(N * nat) * (N * N) * list N", pterms, "c09_pos", shard=400)
    t_coq = time.time() - t0
    if errb or errd or errp:
        res.disagreements.append({"what": "model evaluation failed", "detail": (errb + errd + errp)[:900]})
    for i in failb[:10]:
        case, ex, _ = impl["bloom"][i]
        res.disagreements.append({"what": "bloom filter: model and BloomDeduplicator differ", "case": _short(case), "m": ex["m"], "k": ex["k"]})
    for i in faild[:10]:
        case, ex, _ = impl["dedup"][i]
        res.disagreements.append({"what": "_handle_message history: model and implementation differ", "case": _short(case),
                                  "observed": [(o[0], o[1], o[2], o[4]) for o in ex["obs"]][:12]})
    for i in failp[:5]:
        res.disagreements.append({"what": "_get_hash_positions is not (h1 + i*h2) % m", "case": pterms[i][:300]})

    nontriv = 0
    for case, ex, _ in impl["bloom"]:
        told, q_told, q_untold = set(), False, False
        for op in case["ops"]:
            if op[0] == "mark":
                told.add(op[1])
            elif op[0] == "hydrate":
                told.update(op[1])
            elif op[0] == "reset":
                told.clear()
            elif op[1] in told:
                q_told = True
            else:
                q_untold = True
        nontriv += int(q_told and q_untold)
    nontriv += sum(1 for _, ex, _ in impl["dedup"] if ex["stats"]["redeliveries_of_durable"] > 0)
    res.evaluations = len(bterms) + len(dterms) + len(pterms)
    res.traces_validated = len(bterms) + len(dterms)
    res.distinct_nontrivial = nontriv
    res.distribution = dict(sorted(impl["dist"].items()))
    res.distribution["positions_cases"] = len(pterms)
    res.samples = [_short(impl["dedup"][0][0]), _short(impl["dedup"][-1][0]), _short(impl["bloom"][0][0]), _short(impl["bloom"][-1][0])]
    res.notes.append(f"hashlib oracle (informational): (md5 + i*sha1) % m reproduces _get_hash_positions on {raw_agree}/{raw_total} ids")
    res.notes.append(f"implementation side {t_impl:.1f}s, Coq evaluation {t_coq:.1f}s")
    res.notes += impl["notes"][:6]
    gen = (lib.COQ / "gen" / "Gen_Dedup.v").read_text() if (lib.COQ / "gen" / "Gen_Dedup.v").exists() else ""
    res.notes.append("source today: early_mark=%s late_mark=%s" % ("true" if "early_mark : bool := true" in gen else "false",
                                                                   "true" if "late_mark : bool := true" in gen else "false"))
    # check.py only calls search() when run() reported no violation at all; the known finding is reported on every run, so
    # when something no longer checks and nothing NEW was seen, look harder here
    known_sigs = {k.get("signature") for k in lib.load_known() if k.get("property") == PID}
    if (ctx.broken or res.disagreements) and not [v for v in res.violations if v.signature not in known_sigs]:
        res.notes.append("something no longer checks and no new failing input was seen: running the extended search")
        res.violations += search(ctx, list(ctx.broken))
    res.extra = {"model_steps_compared": sum(len(c["ops"]) for c, _, _ in impl["bloom"]) + sum(len(c["hist"]) for c, _, _ in impl["dedup"])}
    # ---- the same property on the REAL handlers: every handler commit that consumes a message carries that message's
    # processed record (commit-level correspondence with model/Engine.v, whose handlers mark in the commit that writes),
    # under redelivery without ack, cancels, pauses and a crash cut after every commit of ResumeStage
    try:
        from harness import engine_corr
        outs = engine_corr.extend(ctx, res, PID)
        for o in outs:
            done_ok = set()
            for a, r in zip(o["actions"], o["results"]):
                if a[0] in ("D", "X") and r.get("polled") and r.get("handler_commits", 0) >= 1 and not r.get("crashed") \
                        and not r.get("exception"):
                    if a[1] in done_ok:
                        res.violations.append(Violation(
                            what=f"queue row {a[1]} ({r.get('polled')}) was handled again although an earlier handling of it had committed",
                            signature="handled-twice:" + str(r.get("polled")),
                            replay={"kind": "engine", "spec": o["case"]["spec"], "actions": o["actions"],
                                    "case": {k: v for k, v in o["case"].items() if k not in ("spec", "actions")}}))
                        break
                    done_ok.add(a[1])
    except ImportError as e:
        res.notes.append(f"engine part not available: {e!r}")
    return res


def _short(case: dict) -> dict:
    c = dict(case)
    c["ids"] = [s if len(s) <= 40 else s[:37] + "..." for s in case["ids"]]
    if "hist" in c and len(c["hist"]) > 14:
        c["hist"] = c["hist"][:14] + ["... %d more" % (len(case["hist"]) - 14)]
    if "ops" in c and len(c["ops"]) > 14:
        c["ops"] = c["ops"][:14] + ["... %d more" % (len(case["ops"]) - 14)]
    return c


def search(ctx, broken) -> list:
    """A proof / translation / correspondence broke and run() saw no failing input: push the implementation-side
    monitors much harder (no Coq), biased to the trusted fast path, small capacities and many restarts/rotations."""
    lib.ensure_repo_on_path()
    out = []
    n = 6000 if ctx.tier == "thorough" else 2500
    impl = run_impl(ctx, n_bloom=n, n_dedup=n, with_terms=False)
    out += impl["violations"]
    return out


def replay(obj) -> bool:
    """True = the property holds on this replay."""
    if (obj.get("replay") or {}).get("kind") == "engine":
        from harness import engine_corr
        return engine_corr.replay(obj)
    lib.ensure_repo_on_path()
    case = obj["replay"]
    case = {k: v for k, v in case.items() if k not in ("fail", "how")}
    _quiet()
    try:
        if case.get("kind") == "bloom":
            ex = exec_bloom_case(case)
            return not ex["fails"] and not ex["geometry"]
        root = lib.scratch_dir("c09r")
        try:
            ex = exec_dedup_case(case, root)
        finally:
            lib.rm_rf(root)
        return not ex["fails"] and not ex["geometry"]
    finally:
        _loud()
