"""C11 — mutex admits one running stage; a deferred choice has exactly one winner.

Proofs: coq/props/C11.v over coq/model/Conc.v + coq/proofs/ConcP.v (shared with C04).  Correspondence: the statement
scheduler of harness/props/c04.py on the sibling-race families (mutex pair / triple / steal from a completed holder /
duplicate StartStage next to a sibling, deferred choice with 2 and 3 siblings, mutex + choice combined), with a thread running
the real store.cleanup_completed_stage_claims() at arbitrary points (the database also holds a COMPLETED execution with a
claim of its own: what the sweep may delete).  Monitors: RUNNING stages per mutex key after every step of the race and after
every status change of the drain <= 1; per group exactly one stage ever leaves NOT_STARTED for RUNNING and the others end
CANCELED; the waiting mutex stage does run after the holder finishes (every stage SUCCEEDED after the FIFO drain).
"""
from __future__ import annotations

from harness.props import c04
from harness.lib import RunResult

PID = "C11"
COQ_TARGETS = ["props/C11.vo", "props/C11E.vo", "model/EngineInv.vo"]   # EngineInv: needed by the extracted oracle
THEOREMS = [
    "Stab.props.C11.C11_source_shape",
    "Stab.props.C11.C11_acquire_claim_as_coded",
    "Stab.props.C11.C11_mutex_owner",
    "Stab.props.C11.C11_mutex_exclusive",
    "Stab.props.C11.C11_sweep_only_completed",
    "Stab.props.C11.C11_steal_only_from_complete",
    "Stab.props.C11.C11_mutex_progress_requeue",
    "Stab.props.C11.C11_mutex_progress_claim",
    "Stab.props.C11.C11_choice_owner",
    "Stab.props.C11.C11_choice_one_winner",
    "Stab.props.C11.C11_choice_losers_cancel",
    "Stab.props.C11E.C11_engine_mutex_owner_partial",
    "Stab.props.C11E.C11_engine_mutex_exclusive_partial",
    "Stab.props.C11E.C11_engine_mutex_crash_cut",
    "Stab.props.C11E.C11_engine_choice_owner",
    "Stab.props.C11E.C11_engine_choice_one_winner",
]
TRUSTED_BASE = c04.TRUSTED_BASE
ASSUMPTIONS = [
    "every SELECT issued by one store API call is one snapshot; thread scheduling below one SQL statement is not modelled",
    "the model has no write lock: it admits a superset of the schedules SQLite admits (sound for the safety theorems)",
    "one execution per model state: claims are keyed (execution_id, claim_key) (Gen_Conc.claim_key_unique_per_execution), the sweep "
    "deletes by execution; the invariants are stated for a live execution (the workflow status is not written by the modelled handlers)",
    "C11_mutex_progress_*: fairness (the re-queued StartStage is delivered again after the holder completed) is a premise on the "
    "schedule, exercised by the FIFO drain of the correspondence; CancelStage handling (losers end CANCELED) is checked by the "
    "monitors on the real engine, the model proves the CancelStage push",
]


def run(ctx) -> RunResult:
    res = c04.check(ctx, PID)
    # single-worker schedules of the whole engine (commit-level correspondence with model/Engine.v): suspended / paused /
    # stopped mutex holders, signals, crashes + recovery; monitor: mutex exclusivity and one choice winner at every commit
    from harness import engine_corr
    engine_corr.extend(ctx, res, PID)
    return res


def search(ctx, broken) -> list:
    found: dict = {}
    jobs = [(n, r, 3, 250, 20, s) for (n, r, _b, _l, _nr, s) in c04.plan_jobs(PID, "quick", ctx.seed + 1)]
    for o in c04.run_jobs(jobs):
        for r in o["runs"]:
            for sig, what in r.get("mon", []):
                found.setdefault(sig, c04.Violation(what=what, signature=sig, replay={"family": o["name"], "choices": r["choices"], "what": what}))
    return list(found.values())


def replay(obj) -> bool:
    return c04.replay(obj)
