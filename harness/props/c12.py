"""C12 -- replaying the event log reproduces the stored state; as-of-sequence = prefix replay; snapshot + later
events = full replay.   (Shared event-sourcing harness code for C13 lives here too.)

Proof side: coq/props/C12.v over coq/model/EventsM.v + coq/gen/Gen_Events.v (harness/tr/events.py).

Correspondence (every invocation; the model's definitions are evaluated inside Coq by vm_compute):
  A. replay fold differential.  Random event logs -- valid lifecycles of 1-2 interleaved workflows, plus a malformed
     stream (unknown event types, event type / entity type mismatches, missing or odd "status" payloads, duplicates,
     context / outputs present or absent) -- are appended to a REAL SqliteEventStore (AUTOINCREMENT assigns the
     sequence) and queried through the REAL EventReplayer: full rebuild, rebuild as of EVERY sequence number, and from
     snapshots saved through the REAL SnapshotStore API at every position (quick: several) with increasing, equal and
     decreasing version numbers; a second stream feeds permuted / duplicated-sequence lists straight to
     EventReplayer._apply_event.  Every answer is compared with EventsM.rebuild / replay (whole state: statuses, times,
     context, outputs, error, skip reason, retry count, entry order).
  B. engine runs with event sourcing ON (SqliteEventStore in the workflow database): every family of
     engine_corr.families() and random specs under FIFO / LIFO / random schedules, with cancels injected.  Per delivery the
     status writes (SQL audit triggers) are classified into lifecycle steps and EventsM.record_of must predict exactly the
     events the handler appended (type, entity, data.status); EventsM.run_store / replay / agrees must reproduce the
     stored statuses, the real rebuild, and the set of entities on which replay and store differ.  The real rebuild is
     also taken at every prefix and from snapshots at several positions and compared with EventsM.rebuild.
Monitors (implementation only): rebuild_workflow_state() vs store.retrieve() on the workflow and every stage / task whose
last status write was a regular start / complete / fail / skip / cancel step; rebuild(as_of=n) vs folding exactly the events
<= n; snapshot + later events vs full replay on the restored fields.
"""
from __future__ import annotations

import json
import os
import random
import time
from concurrent.futures import ProcessPoolExecutor
from datetime import UTC, datetime, timedelta

from harness import lib
from harness.lib import RunResult, Violation

PID = "C12"
COQ_TARGETS = ["props/C12.vo"]
THEOREMS = [
    "Stab.props.C12.C12_as_of",
    "Stab.props.C12.C12_as_of_positive",
    "Stab.props.C12.C12_snapshot",
    "Stab.props.C12.C12_replay_invariant",
    "Stab.props.C12.C12_engine_replay",
    "Stab.props.C12.C12_task_skipped_refuted",
    "Stab.props.C12.C12_task_skipped_at_start_refuted",
]
TRUSTED_BASE = [
    "SQLite: events.sequence INTEGER PRIMARY KEY AUTOINCREMENT hands out increasing positive integers; "
    "`WHERE workflow_id = ? AND sequence > ? ORDER BY sequence` returns exactly those rows in that order (the model's log is "
    "the table in primary-key order; premise seq_sorted of C12_snapshot, discharged by C13_sequence / C13_log_sorted)",
    "JSON: json.loads(json.dumps(x)) == x for event payloads and snapshot states (str keys, JSON scalars); the event migrator has "
    "no registered migration (identity)",
    "payload values, ids and timestamps are opaque tags (N); the twelve WorkflowStatus names are the only status payloads",
    "harness/tr/events.py reads the replayed-status table, the recorder payloads, the handlers' status -> record_* decisions and "
    "the restored snapshot fields off the AST; the non-status field effects of _apply_*_event are hand-modelled and compared "
    "with the implementation on every run (part A)",
    "the classification of a durable status write as regular (start/complete/fail/skip/cancel step of its own handler) or "
    "force-marked (jump reset, CancelStage's bulk task cancel, suspend/resume, recovery) is made by the harness from the "
    "handler type and the audit row, as the property text says",
]
ASSUMPTIONS = [
    "crash-free runs (C12's quantifier); between two handler invocations (a StartTask / StartStage / CancelStage event is "
    "appended in its own commit after the state commit, SkipStage / CompleteWorkflow before it)",
    "workflow-level start_time / end_time are not restored from a snapshot and are excluded from C12_snapshot by name",
    "None and a missing key are not distinguished in the replayed stage / task dictionaries",
    "synthetic before/after/on-failure stages, pause/resume and restart are not exercised by the engine generator",
]

SIG_SKIP = "replay:task-skipped-no-event"

STATUSES = ["NOT_STARTED", "RUNNING", "PAUSED", "SUSPENDED", "SUCCEEDED", "FAILED_CONTINUE", "TERMINAL", "CANCELED",
            "REDIRECT", "STOPPED", "SKIPPED", "BUFFERED"]
COMPLETE = {"SUCCEEDED", "FAILED_CONTINUE", "TERMINAL", "CANCELED", "STOPPED", "SKIPPED"}
BASE_TS = datetime(2030, 1, 1, tzinfo=UTC)
SCAL_KEYS = {"application": "K_application", "name": "K_name", "ref_id": "K_ref_id", "type": "K_type",
             "stage_id": "K_stage_id", "error": "K_error", "reason": "K_reason", "retry_count": "K_retry_count"}
REQ = "From Stab.model Require Import StatusM EventsM.\nLocal Open Scope N_scope."


# ------------------------------------------------------------------------------------------------------
# Coq printers
# ------------------------------------------------------------------------------------------------------

def q_opt(x, f=str):
    return "None" if x is None else f"(Some {f(x)})"


def q_kv(l):
    return "[" + "; ".join(f"({k}, {v})" for k, v in l) + "]"


def q_list(xs):
    return "[" + "; ".join(xs) + "]"


def q_event(e: dict) -> str:
    scal = "[" + "; ".join(f"({SCAL_KEYS[k]}, {v})" for k, v in e.get("scal", {}).items()) + "]"
    return (f"(mkEvent {e['seq']} {e['wf']} E_{e['kind']} ET_{e['ety']} {e['eid']} {e['ts']} {q_opt(e.get('status'))} "
            f"{q_opt(e.get('ctx'), q_kv)} {q_opt(e.get('outs'), q_kv)} {scal} {e.get('tag', 0)})")


def q_state(st: dict) -> str:
    def stage(s):
        return (f"mkS {q_opt(s['ref'])} {q_opt(s['type'])} {q_opt(s['name'])} {q_opt(s['status'])} {q_opt(s['start'])} "
                f"{q_opt(s['end'])} {q_opt(s['outs'], q_kv)} {q_opt(s['error'])} {q_opt(s['skip'])}")

    def task(t):
        return (f"mkK {q_opt(t['name'])} {q_opt(t['stage'])} {q_opt(t['status'])} {q_opt(t['start'])} {q_opt(t['end'])} "
                f"{q_opt(t['outs'], q_kv)} {q_opt(t['error'])} {q_opt(t['retry'])}")
    return (f"(mkR {q_opt(st['status'])} {q_opt(st['app'])} {q_opt(st['name'])} {q_opt(st['start'])} {q_opt(st['end'])} "
            f"{q_kv(st['ctx'])} " + q_list(f"({i}, {stage(s)})" for i, s in st["stages"]) + " "
            + q_list(f"({i}, {task(t)})" for i, t in st["tasks"]) + ")")


# ------------------------------------------------------------------------------------------------------
# abstract event  <->  stabilize Event ;  replayed dict -> canonical state
# ------------------------------------------------------------------------------------------------------

def to_real_event(e: dict, ids=None):
    from stabilize.events.base import EntityType, Event, EventMetadata, EventType
    data = {}
    if e.get("status") is not None:
        data["status"] = e["status"]
    if e.get("ctx") is not None:
        data["context"] = {f"k{k}": v for k, v in e["ctx"]}
    if e.get("outs") is not None:
        data["outputs"] = {f"k{k}": v for k, v in e["outs"]}
    for k, v in e.get("scal", {}).items():
        data[k] = v
    data["tag"] = e.get("tag", 0)
    return Event(event_type=EventType[e["kind"]], entity_type=EntityType[e["ety"]], entity_id=f"e{e['eid']}",
                 workflow_id=f"w{e['wf']}", timestamp=BASE_TS + timedelta(seconds=e["ts"]), sequence=e.get("seq", 0),
                 version=1, data=data, metadata=EventMetadata(correlation_id=f"w{e['wf']}"))


def _ts_tag(x):
    if x is None:
        return None
    if isinstance(x, str):
        x = datetime.fromisoformat(x)
    return int(round((x - BASE_TS).total_seconds()))


def _kvs(d):
    if d is None:
        return None
    return [(int(k[1:]), v) for k, v in d.items()]


def canon_state(d: dict, ent=lambda s: int(s[1:]), ts=_ts_tag, kvs=_kvs, val=lambda v: v) -> dict:
    """replayed dict (WorkflowState.to_dict()) -> canonical state in the model's vocabulary; dict order preserved"""
    def st(x):
        return None if x is None else str(x)
    stages = []
    for sid, s in d["stages"].items():
        stages.append((ent(sid), {"ref": val(s.get("ref_id")), "type": val(s.get("type")), "name": val(s.get("name")),
                                  "status": st(s.get("status")), "start": ts(s.get("start_time")), "end": ts(s.get("end_time")),
                                  "outs": kvs(s.get("outputs")), "error": val(s.get("error")), "skip": val(s.get("skip_reason"))}))
    tasks = []
    for tid, t in d["tasks"].items():
        tasks.append((ent(tid), {"name": val(t.get("name")), "stage": val(t.get("stage_id")), "status": st(t.get("status")),
                                 "start": ts(t.get("start_time")), "end": ts(t.get("end_time")), "outs": kvs(t.get("outputs")),
                                 "error": val(t.get("error")), "retry": t.get("retry_count")}))
    return {"status": st(d.get("status")), "app": val(d.get("application")), "name": val(d.get("name")),
            "start": ts(d.get("start_time")), "end": ts(d.get("end_time")), "ctx": kvs(d.get("context")) or [],
            "stages": stages, "tasks": tasks}


def restored_view(c: dict) -> dict:
    """the fields a snapshot restores (Gen_Events.snapshot_restored_fields): everything but start / end"""
    return {k: v for k, v in c.items() if k not in ("start", "end")}


# ------------------------------------------------------------------------------------------------------
# A. generator of event logs
# ------------------------------------------------------------------------------------------------------

WF_KINDS = ["WORKFLOW_CREATED", "WORKFLOW_STARTED", "WORKFLOW_COMPLETED", "WORKFLOW_FAILED", "WORKFLOW_CANCELED",
            "WORKFLOW_PAUSED", "WORKFLOW_RESUMED", "CONTEXT_UPDATED"]
STAGE_KINDS = ["STAGE_STARTED", "STAGE_COMPLETED", "STAGE_FAILED", "STAGE_SKIPPED", "STAGE_CANCELED"]
TASK_KINDS = ["TASK_STARTED", "TASK_COMPLETED", "TASK_FAILED", "TASK_RETRIED"]
OTHER_KINDS = ["STATUS_CHANGED", "OUTPUTS_UPDATED", "JUMP_EXECUTED", "CUSTOM"]
ALL_KINDS = WF_KINDS[:7] + STAGE_KINDS + TASK_KINDS + ["STATUS_CHANGED", "CONTEXT_UPDATED", "OUTPUTS_UPDATED", "JUMP_EXECUTED", "CUSTOM"]


def _kv(rng, n=3):
    return [(rng.randint(1, 5), rng.randint(10, 99)) for _ in range(rng.randint(0, n))]


def _dedupe_kv(l):
    d = {}
    for k, v in l:
        d[k] = v
    return list(d.items())


def gen_lifecycle(rng: random.Random, wf: int, clock: list) -> list[dict]:
    """events of one plausible workflow execution, in order (what the recorders emit, with payloads)"""
    def tick():
        clock[0] += rng.randint(1, 3)
        return clock[0]
    evs = []

    def ev(kind, ety, eid, **kw):
        d = {"wf": wf, "kind": kind, "ety": ety, "eid": eid, "ts": tick(), "scal": {}}
        d.update(kw)
        evs.append(d)
    ev("WORKFLOW_CREATED", "WORKFLOW", wf, scal={"application": rng.randint(1, 9), "name": rng.randint(1, 9)})
    ev("WORKFLOW_STARTED", "WORKFLOW", wf, ctx=_dedupe_kv(_kv(rng)))
    nst = rng.randint(1, 3)
    outcome = "SUCCEEDED"
    for si in range(nst):
        sid = wf * 100 + si
        meta = {"ref_id": rng.randint(1, 9), "type": rng.randint(1, 3), "name": rng.randint(1, 9)}
        r = rng.random()
        if r < 0.12:
            ev("STAGE_SKIPPED", "STAGE", sid, scal=dict(meta, reason=rng.randint(1, 5)))
            continue
        ev("STAGE_STARTED", "STAGE", sid, scal=dict(meta))
        stage_status = "SUCCEEDED"
        for ti in range(rng.randint(1, 3)):
            tid = sid * 10 + ti
            tmeta = {"name": rng.randint(1, 9), "stage_id": sid}
            ev("TASK_STARTED", "TASK", tid, scal=dict(tmeta))
            for _ in range(rng.choice([0, 0, 0, 1, 2])):
                ev("TASK_RETRIED", "TASK", tid, scal=dict({"name": tmeta["name"]}, **({"retry_count": rng.randint(1, 9)} if rng.random() < 0.3 else {})))
            r = rng.random()
            if r < 0.65:
                ev("TASK_COMPLETED", "TASK", tid, status=rng.choice(["SUCCEEDED", "SUCCEEDED", "REDIRECT", "CANCELED"]),
                   outs=_dedupe_kv(_kv(rng)), scal={"name": tmeta["name"]})
            elif r < 0.9:
                s = rng.choice(["TERMINAL", "FAILED_CONTINUE", "STOPPED"])
                ev("TASK_FAILED", "TASK", tid, status=s, scal={"name": tmeta["name"], "error": rng.randint(1, 9)})
                if s != "FAILED_CONTINUE":
                    stage_status = s
                    break
                stage_status = "FAILED_CONTINUE"
            else:
                break   # left RUNNING (canceled below or skipped task without event)
        r = rng.random()
        if r < 0.1:
            ev("STAGE_CANCELED", "STAGE", sid, scal=dict(meta))
            outcome = "CANCELED"
            break
        if stage_status in ("TERMINAL", "STOPPED", "FAILED_CONTINUE"):
            ev("STAGE_FAILED", "STAGE", sid, status=stage_status, scal=dict(meta, error=rng.randint(1, 9)))
            if stage_status != "FAILED_CONTINUE":
                outcome = "TERMINAL"
                break
        else:
            ev("STAGE_COMPLETED", "STAGE", sid, status=stage_status, outs=_dedupe_kv(_kv(rng)), scal=dict(meta))
        if rng.random() < 0.2:
            ev("CONTEXT_UPDATED", "WORKFLOW", wf, ctx=_dedupe_kv(_kv(rng)))
    if rng.random() < 0.15:
        ev("WORKFLOW_PAUSED", "WORKFLOW", wf)
        if rng.random() < 0.6:
            ev("WORKFLOW_RESUMED", "WORKFLOW", wf)
    if rng.random() < 0.85:
        if outcome == "SUCCEEDED":
            ev("WORKFLOW_COMPLETED", "WORKFLOW", wf, status="SUCCEEDED")
        elif outcome == "CANCELED":
            ev("WORKFLOW_CANCELED", "WORKFLOW", wf)
        else:
            ev("WORKFLOW_FAILED", "WORKFLOW", wf, status="TERMINAL", scal={"error": rng.randint(1, 9)})
    return evs


def gen_malformed_event(rng: random.Random, wf: int, clock: list, ids: list[int]) -> dict:
    clock[0] += rng.randint(0, 2)
    kind = rng.choice(ALL_KINDS)
    ety = rng.choice(["WORKFLOW", "STAGE", "TASK"])
    e = {"wf": wf, "kind": kind, "ety": ety, "eid": rng.choice(ids), "ts": clock[0], "scal": {}}
    if rng.random() < 0.5:
        e["status"] = rng.choice(STATUSES)
    if rng.random() < 0.4:
        e["ctx"] = _dedupe_kv(_kv(rng))
    if rng.random() < 0.4:
        e["outs"] = _dedupe_kv(_kv(rng))
    for k in SCAL_KEYS:
        if rng.random() < 0.3:
            e["scal"][k] = rng.randint(1, 9)
    return e


def merge_streams(rng: random.Random, streams: list[list[dict]]) -> list[dict]:
    streams = [list(s) for s in streams if s]
    out = []
    while streams:
        s = rng.choice(streams)
        out.append(s.pop(0))
        if not s:
            streams.remove(s)
    return out


CORNER_LOGS = {
    "empty": [],
    "only-unknown": [{"wf": 1, "kind": "CUSTOM", "ety": "WORKFLOW", "eid": 1, "ts": 1, "scal": {}},
                     {"wf": 1, "kind": "STATUS_CHANGED", "ety": "STAGE", "eid": 100, "ts": 2, "scal": {"name": 3}},
                     {"wf": 1, "kind": "JUMP_EXECUTED", "ety": "TASK", "eid": 1000, "ts": 3, "scal": {}}],
    "completed-without-status": [{"wf": 1, "kind": "STAGE_COMPLETED", "ety": "STAGE", "eid": 100, "ts": 1, "scal": {}},
                                 {"wf": 1, "kind": "TASK_FAILED", "ety": "TASK", "eid": 1000, "ts": 2, "scal": {}},
                                 {"wf": 1, "kind": "WORKFLOW_FAILED", "ety": "WORKFLOW", "eid": 1, "ts": 3, "scal": {}},
                                 {"wf": 1, "kind": "WORKFLOW_COMPLETED", "ety": "WORKFLOW", "eid": 1, "ts": 4, "scal": {}}],
    "retry-counts": [{"wf": 1, "kind": "TASK_RETRIED", "ety": "TASK", "eid": 1000, "ts": 1, "scal": {}},
                     {"wf": 1, "kind": "TASK_RETRIED", "ety": "TASK", "eid": 1000, "ts": 2, "scal": {}},
                     {"wf": 1, "kind": "TASK_RETRIED", "ety": "TASK", "eid": 1000, "ts": 3, "scal": {"retry_count": 7}},
                     {"wf": 1, "kind": "TASK_RETRIED", "ety": "TASK", "eid": 1000, "ts": 4, "scal": {}}],
    "kind-entity-mismatch": [{"wf": 1, "kind": "TASK_STARTED", "ety": "STAGE", "eid": 100, "ts": 1, "scal": {"name": 2}},
                             {"wf": 1, "kind": "STAGE_STARTED", "ety": "TASK", "eid": 100, "ts": 2, "scal": {"name": 3}},
                             {"wf": 1, "kind": "STAGE_COMPLETED", "ety": "WORKFLOW", "eid": 1, "ts": 3, "status": "SUCCEEDED", "scal": {}},
                             {"wf": 1, "kind": "WORKFLOW_STARTED", "ety": "STAGE", "eid": 100, "ts": 4, "scal": {}}],
    "context-overwrite": [{"wf": 1, "kind": "WORKFLOW_STARTED", "ety": "WORKFLOW", "eid": 1, "ts": 1, "ctx": [(1, 10), (2, 20)], "scal": {}},
                          {"wf": 1, "kind": "CONTEXT_UPDATED", "ety": "WORKFLOW", "eid": 1, "ts": 2, "ctx": [(2, 21), (3, 30)], "scal": {}},
                          {"wf": 1, "kind": "CONTEXT_UPDATED", "ety": "WORKFLOW", "eid": 9, "ts": 3, "scal": {}},
                          {"wf": 1, "kind": "WORKFLOW_STARTED", "ety": "WORKFLOW", "eid": 1, "ts": 4, "ctx": [(1, 11)], "scal": {}}],
    "skipped-task-f6": [{"wf": 1, "kind": "STAGE_STARTED", "ety": "STAGE", "eid": 100, "ts": 1, "scal": {}},
                        {"wf": 1, "kind": "TASK_STARTED", "ety": "TASK", "eid": 1000, "ts": 2, "scal": {}},
                        {"wf": 1, "kind": "STAGE_COMPLETED", "ety": "STAGE", "eid": 100, "ts": 3, "status": "SUCCEEDED", "scal": {}}],
}


def gen_log(rng: random.Random) -> tuple[str, list[dict]]:
    clock = [0]
    r = rng.random()
    if r < 0.45:
        cat = "lifecycle"
        log = gen_lifecycle(rng, 1, clock)
    elif r < 0.7:
        cat = "two-workflows"
        log = merge_streams(rng, [gen_lifecycle(rng, 1, clock), gen_lifecycle(rng, 2, clock)])
        t = 0
        for e in log:
            t += 1
            e["ts"] = t
    elif r < 0.88:
        cat = "lifecycle+malformed"
        base = gen_lifecycle(rng, 1, clock)
        ids = sorted({e["eid"] for e in base}) + [1, 100, 1000]
        extra = [gen_malformed_event(rng, 1, clock, ids) for _ in range(rng.randint(1, 6))]
        log = merge_streams(rng, [base, extra])
        for d in rng.sample(base, min(len(base), rng.randint(0, 2))):   # duplicates
            log.insert(rng.randint(0, len(log)), dict(d))
    else:
        cat = "malformed"
        ids = [1, 2, 100, 101, 1000]
        log = [gen_malformed_event(rng, rng.choice([1, 1, 2]), clock, ids) for _ in range(rng.randint(1, 14))]
    return cat, [dict(e) for e in log][:32]


# ------------------------------------------------------------------------------------------------------
# A. one replay case on the real EventReplayer (runs in a worker process)
# ------------------------------------------------------------------------------------------------------

def _fold_real(events_real) -> dict:
    from stabilize.events.replay import EventReplayer, WorkflowState
    rp = EventReplayer(None)
    st = WorkflowState(workflow_id="x")
    for ev in events_real:
        rp._apply_event(st, ev)
    return st.to_dict()


def run_replay_case(case: dict) -> dict:
    """case: {cat, log (abstract events without seq), snap_plan, fold_perm}  ->  queries with the real answers"""
    lib.ensure_repo_on_path()
    import logging
    logging.disable(logging.CRITICAL)
    from stabilize.events.base import EntityType
    from stabilize.events.replay import EventReplayer
    from stabilize.events.snapshots import SnapshotStore
    from stabilize.events.store.sqlite import SqliteEventStore
    from stabilize.persistence.connection import ConnectionManager, SingletonMeta
    d = lib.scratch_dir("c12a")
    out = {"cat": case["cat"], "queries": [], "violations": [], "log": None}
    try:
        SingletonMeta.reset(ConnectionManager)
        es = SqliteEventStore(f"sqlite:///{d}/e.db", create_tables=True)
        log = [dict(e) for e in case["log"]]
        for e in log:
            rec = es.append(to_real_event(e))
            e["seq"] = rec.sequence
        out["log"] = log
        wfs = sorted({e["wf"] for e in log}) or [1]
        plain = EventReplayer(es)
        maxseq = max([e["seq"] for e in log], default=0)
        full = {}
        for wf in wfs:
            w = f"w{wf}"
            evs_real = es.get_events_for_workflow(w)
            full[wf] = plain.rebuild_workflow_state(w)
            out["queries"].append({"wf": wf, "snaps": [], "as_of": None, "got": canon_state(full[wf])})
            for n in range(0, maxseq + 2):
                got = plain.rebuild_workflow_state(w, as_of_sequence=n)
                out["queries"].append({"wf": wf, "snaps": [], "as_of": n, "got": canon_state(got)})
                # monitor: as-of-n == folding exactly the events with sequence <= n
                want = _fold_real([ev for ev in evs_real if ev.sequence <= n])
                if canon_state(got) != canon_state(want):
                    out["violations"].append({"what": f"rebuild(as_of_sequence={n}) differs from replaying exactly the events up to {n}",
                                              "sig": "as-of:not-prefix-replay", "wf": wf, "as_of": n})
        # snapshots through the real API
        snaps: dict[int, list] = {wf: [] for wf in wfs}
        sstore = SnapshotStore(es)
        with_snap = EventReplayer(es, sstore)
        for (wf, k, ver) in case["snap_plan"]:
            if wf not in snaps:
                continue
            w = f"w{wf}"
            state_k = plain.rebuild_workflow_state(w, as_of_sequence=k)
            sstore.create_workflow_snapshot(state_k, w, version=ver, sequence=k)
            snaps[wf].append((ver, k))
            for n in sorted({None, 0, max(k - 1, 0), k, k + 1, maxseq, maxseq + 1} | set(case.get("extra_as_of", [])),
                            key=lambda x: -1 if x is None else x):
                got = with_snap.rebuild_workflow_state(w, as_of_sequence=n)
                out["queries"].append({"wf": wf, "snaps": list(snaps[wf]), "as_of": n, "got": canon_state(got)})
                ref = plain.rebuild_workflow_state(w, as_of_sequence=n)
                if restored_view(canon_state(got)) != restored_view(canon_state(ref)):
                    out["violations"].append({"what": f"snapshot at {k} (version {ver}) + later events differs from the full replay "
                                                      f"(as_of={n}) on a restored field",
                                              "sig": "snapshot:not-full-replay", "wf": wf, "as_of": n, "snaps": list(snaps[wf])})
        # direct fold over a permuted / duplicated list (sequence numbers arbitrary)
        perm = case.get("fold_perm")
        if perm is not None:
            plog = [dict(log[i], seq=s) for i, s in perm]
            got = _fold_real([to_real_event(e) for e in plog])
            out["fold"] = {"log": plog, "got": canon_state(got)}
        return out
    finally:
        try:
            ConnectionManager().close_all()
        except Exception:
            pass
        SingletonMeta.reset(ConnectionManager)
        lib.rm_rf(d)


def replay_cases(rng: random.Random, n: int, thorough: bool) -> list[dict]:
    cases = []
    for name, log in CORNER_LOGS.items():
        cases.append({"cat": "corner:" + name, "log": [dict(e) for e in log]})
    while len(cases) < n:
        cat, log = gen_log(rng)
        cases.append({"cat": cat, "log": log})
    for c in cases:
        log = c["log"]
        nlog = len(log)
        wfs = sorted({e["wf"] for e in log}) or [1]
        plan = []
        ver = 0
        positions = list(range(0, nlog + 1)) if thorough else sorted(set(rng.sample(range(0, nlog + 1), min(nlog + 1, 4))))
        rng.shuffle(positions)
        for k in positions:
            r = rng.random()
            if r < 0.7:
                ver += 1
            elif r < 0.85:
                pass                 # same version: INSERT OR REPLACE
            else:
                ver = max(1, ver - rng.randint(1, 2)) if ver else 1   # lower version: an older snapshot stays "latest"
            plan.append((rng.choice(wfs), k, max(ver, 1)))
        c["snap_plan"] = plan
        c["extra_as_of"] = [rng.randint(0, nlog + 1) for _ in range(2)]
        if nlog and rng.random() < 0.6:
            idx = [rng.randrange(nlog) for _ in range(rng.randint(1, nlog + 2))]
            c["fold_perm"] = [(i, rng.choice([0, 1, 2, 3, rng.randint(0, 40)])) for i in idx]
    return cases


def replay_terms(outs: list[dict]) -> tuple[list[str], list[dict]]:
    """Coq cases: (log, [(wf, snaps, as_of, expected)]) and fold cases"""
    terms, meta = [], []
    for o in outs:
        log_t = q_list(q_event(e) for e in o["log"])
        qs = o["queries"]
        for i in range(0, len(qs), 40):
            chunk = qs[i:i + 40]
            qt = q_list("(%d, %s, %s, %s)" % (q["wf"], q_list(f"({v}, {k})" for v, k in q["snaps"]), q_opt(q["as_of"]), q_state(q["got"]))
                        for q in chunk)
            terms.append(f"({log_t}, {qt})")
            meta.append({"kind": "rebuild", "cat": o["cat"], "log": o["log"], "queries": chunk})
        if "fold" in o:
            f = o["fold"]
            terms.append(f"({q_list(q_event(e) for e in f['log'])}, [(99999, [], None, {q_state(f['got'])})])")
            meta.append({"kind": "fold", "cat": o["cat"], "log": f["log"], "got": f["got"]})
    return terms, meta


# wf = 99999 marks a direct fold (replay of the list as given); otherwise rebuild with the latest snapshot
CHECK_REPLAY = ("fun c => match c with (log, qs) => forallb (fun q => match q with (wf, snaps, as_of, exp) => "
                "if N.eqb wf 99999 then rstate_eqb (replay log) exp else "
                "rstate_eqb (rebuild wf (latest_snapshot (map (fun vk => mkSnap (fst vk) (snd vk) (rebuild wf None (Some (snd vk)) log)) snaps) None) as_of log) exp "
                "end) qs end")
CASE_T_REPLAY = "list event * list (N * list (N * N) * option N * rstate)"


# ------------------------------------------------------------------------------------------------------
# B. engine runs with event sourcing on
# ------------------------------------------------------------------------------------------------------

_DEPTH = {"max": 0, "installed": False}


def install_scope_depth_probe():
    """record the maximal TxnScope depth the engine reaches (the C13 publication theorem needs depth <= 1)"""
    if _DEPTH["installed"]:
        return
    from stabilize.events import txn_scope
    orig = txn_scope.begin_store_transaction

    def probe(connection, url):
        orig(connection, url)
        sc = txn_scope.current_scope()
        if sc is not None and sc.depth > _DEPTH["max"]:
            _DEPTH["max"] = sc.depth
    txn_scope.begin_store_transaction = probe
    _DEPTH["installed"] = True


def make_env(spec, **kw):
    """driver.Env with event sourcing on, plus: a synchronous bus subscriber that checks durability at hand-over time
    through the harness connection; the thread-local TxnScope dropped on restart (a dead process has none)."""
    from harness import driver

    class EvEnv(driver.Env):
        def __init__(self, spec, **kw2):
            self.pub = []          # (sequence, event_id, durable-at-hand-over)
            super().__init__(spec, events=True, **kw2)

        def _open(self, first=False):
            from stabilize.events import txn_scope
            txn_scope._local.scope = None
            install_scope_depth_probe()
            super()._open(first)
            from stabilize.events import get_event_bus
            get_event_bus().subscribe("verif-c13", self._on_pub)

        def _on_pub(self, ev):
            row = self.hconn.execute("SELECT 1 FROM events WHERE sequence = ? AND event_id = ?", (ev.sequence, ev.event_id)).fetchone()
            self.pub.append((ev.sequence, ev.event_id, row is not None))

        def ev_max(self):
            return self.hconn.execute("SELECT COALESCE(MAX(sequence), 0) FROM events").fetchone()[0]

        def ev_rows(self, since=0):
            return [dict(r) for r in self.hconn.execute(
                "SELECT sequence, event_id, event_type, entity_type, entity_id, workflow_id, timestamp, data, source_handler "
                "FROM events WHERE sequence > ? ORDER BY sequence", (since,))]
    return EvEnv(spec, **kw)


class Ids:
    """entity ids (ULIDs) -> small tags: workflow 0, stage = index in spec order (synthetic: 50+), task = 100*stage + index"""
    def __init__(self, env):
        self.env = env
        self.stage = {}
        for i, st in enumerate(env.spec["stages"]):
            self.stage[env.stage_ids[st["ref"]]] = i
        self.task = {}
        for tid, (ref, idx) in env.task_ids.items():
            self.task[tid] = 100 * self.stage[env.stage_ids[ref]] + idx
        self.extra = {}

    def ent(self, kind, eid):
        if kind == "workflow":
            return ("wf", 0)
        if kind == "stage":
            if eid not in self.stage:
                self.stage[eid] = 50 + len([1 for v in self.stage.values() if v >= 50])
            return ("stage", self.stage[eid])
        if eid not in self.task:
            self.task[eid] = 9000 + len([1 for v in self.task.values() if v >= 9000])
        return ("task", self.task[eid])


def q_entity(x) -> str:
    k, i = x
    return "EWf" if k == "wf" else (f"(EStage {i})" if k == "stage" else f"(ETask {i})")


def classify(handler: str, rows: list[dict], ids: Ids) -> list[tuple]:
    """audit rows of one handler invocation -> lifecycle steps (see EventsM.lstep); returns [(step tuple, regular?)]"""
    steps = []
    cancel_tasks, cancel_stage = [], None
    for r in rows:
        kind, new, old = r["kind"], r["new"], r["old"]
        if kind not in ("workflow", "stage", "task"):
            continue
        x = ids.ent(kind, r["ent"])
        if kind == "workflow":
            if handler == "StartWorkflow" and new == "RUNNING":
                steps.append(("LStartWorkflow",))
            elif handler == "CompleteWorkflow" and new in COMPLETE:
                steps.append(("LCompleteWorkflow", new))
            else:
                steps.append(("LForce", x, new))
        elif kind == "stage":
            if handler == "StartStage" and old == "NOT_STARTED" and new == "RUNNING":
                steps.append(("LStartStage", x[1]))
            elif handler == "CompleteStage" and new in COMPLETE:
                steps.append(("LCompleteStage", x[1], new))
            elif handler == "SkipStage" and new == "SKIPPED":
                steps.append(("LSkipStage", x[1]))
            elif handler == "CancelStage" and new == "CANCELED":
                cancel_stage = x[1]
            else:
                steps.append(("LForce", x, new))
        else:
            if handler == "StartTask" and new == "RUNNING":
                steps.append(("LStartTask", x[1]))
            elif handler == "StartTask" and new == "SKIPPED":
                steps.append(("LSkipTaskAtStart", x[1]))
            elif handler == "CompleteTask" and (new in COMPLETE or new == "REDIRECT"):
                steps.append(("LCompleteTask", x[1], new))
            elif handler == "CancelStage" and new == "CANCELED":
                cancel_tasks.append(x[1])
            else:
                steps.append(("LForce", x, new))
    if cancel_stage is not None:
        steps.append(("LCancelStage", cancel_stage, cancel_tasks))
    else:
        for t in cancel_tasks:
            steps.append(("LForce", ("task", t), "CANCELED"))
    return steps


def q_lstep(s: tuple) -> str:
    k = s[0]
    if k == "LStartWorkflow":
        return "LStartWorkflow"
    if k == "LCompleteWorkflow":
        return f"(LCompleteWorkflow {s[1]})"
    if k in ("LStartStage", "LSkipStage", "LStartTask", "LSkipTaskAtStart", "LCompleteStageErr"):
        return f"({k} {s[1]})"
    if k in ("LCompleteStage", "LCompleteTask"):
        return f"({k} {s[1]} {s[2]})"
    if k == "LCancelStage":
        return f"(LCancelStage {s[1]} {q_list(str(t) for t in s[2])})"
    return f"(LForce {q_entity(s[1])} {s[2]})"


def abstract_event_row(r: dict, ids: Ids, t0: datetime) -> dict:
    """a row of the real events table -> abstract event (payload values -> tags)"""
    data = json.loads(r["data"] or "{}")
    ety = r["entity_type"].upper()
    kind = {v: k for k, v in _EVENT_VALUES().items()}[r["event_type"]]
    x = ids.ent(r["entity_type"], r["entity_id"])
    ts = datetime.fromisoformat(r["timestamp"])
    e = {"seq": r["sequence"], "wf": 0, "kind": kind, "ety": ety, "eid": x[1], "ts": max(0, int((ts - t0).total_seconds() * 1000000)),
         "scal": {}, "status": data.get("status") if data.get("status") in STATUSES else None}
    if "context" in data:
        e["ctx"] = _tag_kvs(data["context"])
    if "outputs" in data:
        e["outs"] = _tag_kvs(data["outputs"])
    for k in SCAL_KEYS:
        if data.get(k) is not None:
            e["scal"][k] = int(data[k]) if k == "retry_count" else _tag(data[k])
    return e


_EV_VALUES = {}


def _EVENT_VALUES():
    if not _EV_VALUES:
        from stabilize.events.base import EventType
        for m in EventType:
            _EV_VALUES[m.name] = m.value
    return _EV_VALUES


_TAGS: dict = {}


def _tag(v) -> int:
    """opaque payload value -> stable small tag (equal values, equal tags)"""
    key = json.dumps(v, sort_keys=True, default=str)
    if key not in _TAGS:
        _TAGS[key] = len(_TAGS) + 1
    return _TAGS[key]


def _tag_kvs(d) -> list:
    if d is None:
        return None
    return [(_tag(k), _tag(v)) for k, v in d.items()]


def canon_engine_state(d: dict, ids: Ids, t0: datetime) -> dict:
    def ent_s(kind):
        return lambda s: ids.ent(kind, s)[1]

    def ts(x):
        if x is None:
            return None
        if isinstance(x, str):
            x = datetime.fromisoformat(x)
        return max(0, int((x - t0).total_seconds() * 1000000))
    c = canon_state(d, ent=lambda s: s, ts=ts, kvs=_tag_kvs, val=lambda v: None if v is None else _tag(v))
    c["stages"] = [(ids.ent("stage", i)[1], s) for i, s in c["stages"]]
    c["tasks"] = [(ids.ent("task", i)[1], t) for i, t in c["tasks"]]
    return c


def pick_row(rows, rng, policy):
    from harness import engine_corr
    return engine_corr.pick(rows, rng, policy)


def run_engine_case(case: dict) -> dict:
    """crash-free run of the real engine with events on.  Returns per-delivery (handler, lifecycle steps, events), the final
    store statuses, real rebuilds (full, every prefix, snapshots), and the monitor's violations."""
    global _TAGS
    _TAGS = {}
    rng = random.Random(case["seed"])
    spec = case["spec"]
    env = make_env(spec, tag="c12b")
    out = {"case": {k: v for k, v in case.items() if k != "spec"}, "spec": spec, "deliveries": [], "violations": [], "actions": []}
    try:
        from stabilize.events.replay import EventReplayer
        from stabilize.events.snapshots import SnapshotStore
        ids = Ids(env)
        t0 = datetime.now(UTC) - timedelta(seconds=5)
        a_mark, e_mark = env.audit_max(), env.ev_max()

        def observe(handler, rid, payload=None):
            nonlocal a_mark, e_mark
            rows = [r for r in env.audit(a_mark) if r["kind"] in ("workflow", "stage", "task")]
            evs = env.ev_rows(e_mark)
            a_mark, e_mark = env.audit_max(), env.ev_max()
            steps_ = classify(handler, rows, ids)
            if handler == "CompleteTask" and payload and payload.get("status") == "SKIPPED" and not any(r["kind"] == "task" for r in rows):
                # the continuation of a task StartTask already marked SKIPPED (disabled SkippableTask): SKIPPED -> SKIPPED is no
                # status change for the audit trigger, but it is the task's regular completion step
                cur_st = env.hconn.execute("SELECT status FROM task_executions WHERE id = ?", (payload.get("task_id"),)).fetchone()
                if cur_st is not None and cur_st[0] == "SKIPPED":
                    steps_ = steps_ + [("LCompleteTask", ids.ent("task", payload["task_id"])[1], "SKIPPED")]
            if rows or evs:
                out["deliveries"].append({"handler": handler, "row": rid, "steps": steps_,
                                          "events": [abstract_event_row(r, ids, t0) for r in evs],
                                          "writes": [(ids.ent(r["kind"], r["ent"]), r["old"], r["new"]) for r in rows]})
        env.submit()
        out["actions"].append(["B"])
        observe("submit", None)
        cancel_at = case.get("cancel_at")
        steps = 0
        given = case.get("actions")
        while steps < case.get("max_steps", 150):
            if cancel_at is not None and steps == cancel_at:
                env.cancel()
                out["actions"].append(["C"])
                observe("cancel", None)
            rows = env.rows()
            if not rows:
                break
            if given is not None:
                nxt = [a for a in given if a[0] == "D"]
                if steps >= len(nxt):
                    break
                rid = nxt[steps][1]
                if rid not in [r["id"] for r in rows]:
                    break
            else:
                rid = pick_row(rows, rng, case["policy"])
            payload = [x for x in rows if x["id"] == rid][0]["payload"]
            r = env.deliver(rid)
            out["actions"].append(["D", rid])
            observe(r.get("polled") or "?", rid, payload)
            steps += 1
        out["quiescent"] = len(env.rows()) == 0
        out["scope_depth_max"] = _DEPTH["max"]
        # ---------------- final comparison
        wf = env.workflow()
        store = {("wf", 0): wf.status.name}
        for s in wf.stages:
            store[ids.ent("stage", s.id)] = s.status.name
            for t in s.tasks:
                store[ids.ent("task", t.id)] = t.status.name
        out["store"] = [(list(k), v) for k, v in store.items()]
        rp = EventReplayer(env.event_store)
        full = rp.rebuild_workflow_state(env.wf_id)
        evrows = env.ev_rows(0)
        log = [abstract_event_row(r, ids, t0) for r in evrows]
        out["log"] = log
        queries = [{"wf": 0, "snaps": [], "as_of": None, "got": canon_engine_state(full, ids, t0)}]
        seqs = [e["seq"] for e in log]
        prefix_ns = seqs if case.get("all_prefixes") else sorted(set(rng.sample(seqs, min(len(seqs), 6)))) if seqs else []
        evs_real = env.event_store.get_events_for_workflow(env.wf_id)
        for n in prefix_ns:
            got = rp.rebuild_workflow_state(env.wf_id, as_of_sequence=n)
            queries.append({"wf": 0, "snaps": [], "as_of": n, "got": canon_engine_state(got, ids, t0)})
            want = _fold_real([ev for ev in evs_real if ev.sequence <= n])
            want["workflow_id"] = env.wf_id
            if canon_engine_state(got, ids, t0) != canon_engine_state(want, ids, t0):
                out["violations"].append({"what": f"rebuild(as_of_sequence={n}) differs from replaying exactly the events up to {n}",
                                          "sig": "as-of:not-prefix-replay", "as_of": n})
        sstore = SnapshotStore(env.event_store)
        rps = EventReplayer(env.event_store, sstore)
        snaps = []
        for j, k in enumerate(sorted(set(rng.sample(seqs, min(len(seqs), case.get("n_snaps", 3))))) if seqs else []):
            state_k = rp.rebuild_workflow_state(env.wf_id, as_of_sequence=k)
            sstore.create_workflow_snapshot(state_k, env.wf_id, version=j + 1, sequence=k)
            snaps.append((j + 1, k))
            for n in (None, k, k + 1, seqs[-1]):
                got = rps.rebuild_workflow_state(env.wf_id, as_of_sequence=n)
                queries.append({"wf": 0, "snaps": list(snaps), "as_of": n, "got": canon_engine_state(got, ids, t0)})
                ref = rp.rebuild_workflow_state(env.wf_id, as_of_sequence=n)
                if restored_view(canon_engine_state(got, ids, t0)) != restored_view(canon_engine_state(ref, ids, t0)):
                    out["violations"].append({"what": f"snapshot at {k} + later events differs from the full replay (as_of={n})",
                                              "sig": "snapshot:not-full-replay", "as_of": n, "snaps": list(snaps)})
        out["queries"] = queries
        # ---------------- monitor: replay vs store on regularly-handled entities
        last = {}
        for dl in out["deliveries"]:
            for st in dl["steps"]:
                for x, regular in step_entities(st):
                    last[x] = (regular, dl["handler"], st[0])
        replayed = {("wf", 0): full.get("status")}
        for sid, s in full["stages"].items():
            replayed[ids.ent("stage", sid)] = s.get("status")
        for tid, t in full["tasks"].items():
            replayed[ids.ent("task", tid)] = t.get("status")
        differ = []
        for x, stored in store.items():
            if x not in last:
                # never written: NOT_STARTED in the store, absent from the replay -- nothing to compare
                if replayed.get(x) is not None:
                    out["violations"].append({"what": f"{x} was never written but replay reports {replayed.get(x)}",
                                              "sig": f"replay:phantom-status:{x[0]}"})
                continue
            regular, handler, stepname = last[x]
            if not regular:
                continue
            if replayed.get(x) != stored:
                differ.append(list(x))
                if x[0] == "task" and stored == "SKIPPED":
                    sig = SIG_SKIP
                    what = (f"task completes SKIPPED through {handler} without any event: replay reports "
                            f"{replayed.get(x)} while the store says SKIPPED (F6)")
                else:
                    sig = f"replay:{x[0]}:{handler}:{stored}-vs-{replayed.get(x)}"
                    what = f"{x[0]} {x[1]} last written by {handler} ({stepname}): store says {stored}, replay says {replayed.get(x)}"
                out["violations"].append({"what": what, "sig": sig, "entity": list(x)})
        out["differ"] = differ
        out["published"] = [(s, ok) for s, _, ok in env.pub]
        return out
    finally:
        env.close()


def step_entities(st: tuple) -> list[tuple]:
    """(entity, regular?) written by a lifecycle step, in write order"""
    k = st[0]
    if k in ("LStartWorkflow", "LCompleteWorkflow"):
        return [(("wf", 0), True)]
    if k in ("LStartStage", "LCompleteStage", "LSkipStage", "LCompleteStageErr"):
        return [(("stage", st[1]), True)]
    if k == "LCancelStage":
        return [(("task", t), False) for t in st[2]] + [(("stage", st[1]), True)]
    if k in ("LStartTask", "LSkipTaskAtStart", "LCompleteTask"):
        return [(("task", st[1]), True)]
    return [(tuple(st[1]), False)]


def engine_terms(outs: list[dict]) -> tuple[list[str], list[dict], list[str], list[dict]]:
    """(recording cases, meta), (replay cases, meta)"""
    rec_terms, rec_meta, rep_terms, rep_meta = [], [], [], []
    for o in outs:
        dls = q_list("(%s, %s)" % (q_list(q_lstep(s) for s in d["steps"]),
                                   q_list("(E_%s, ET_%s, %d, %s)" % (e["kind"], e["ety"], e["eid"], q_opt(e["status"])) for e in d["events"]))
                     for d in o["deliveries"])
        store = q_list("(%s, %s)" % (q_entity(tuple(x)), s) for x, s in o["store"])
        differ = q_list(q_entity(tuple(x)) for x in o["differ"])
        log_t = q_list(q_event(e) for e in o["log"])
        rec_terms.append(f"({dls}, {store}, {differ}, {log_t})")
        rec_meta.append({"name": o["case"].get("name"), "policy": o["case"].get("policy"), "spec": o["spec"], "actions": o["actions"]})
        qs = o["queries"]
        qt = q_list("(%d, %s, %s, %s)" % (q["wf"], q_list(f"({v}, {k})" for v, k in q["snaps"]), q_opt(q["as_of"]), q_state(q["got"]))
                    for q in qs)
        rep_terms.append(f"({log_t}, {qt})")
        rep_meta.append({"kind": "engine-rebuild", "name": o["case"].get("name"), "spec": o["spec"], "actions": o["actions"]})
    return rec_terms, rec_meta, rep_terms, rep_meta


# per delivery: the events EventsM.record_of predicts for the classified steps == the events the handler appended;
# whole run: model store == real store; entities on which `agrees` fails == entities on which real replay and store differ
CHECK_REC = (
    "fun c => match c with (dls, store, differ, log) => "
    "let steps := List.concat (map fst dls) in "
    "let run := records_from 0 steps in "
    "forallb (fun d => list_eqb ev_sig_eqb (map ev_sig (List.concat (map (fun st => snd (record_of 0 st)) (fst d)))) (snd d)) dls "
    "&& forallb (fun xs => match sget (fst xs) (run_store run) with Some (s, _) => status_eqb s (snd xs) "
    "                       | None => status_eqb (snd xs) NOT_STARTED end) store "
    "&& list_eqb entity_eqb (filter (fun x => negb (agrees (run_store run) (replay log) x)) (map fst store)) differ "
    "end")
CASE_T_REC = "list (list lstep * list (ekind * etype * N * option status)) * list (entity * status) * list entity * list event"


def engine_cases(rng: random.Random, tier: str) -> list[dict]:
    from harness import engine_corr
    fam = engine_corr.families()
    fam = dict(fam)
    S = engine_corr.S
    fam["task_skip"] = {"stages": [S("A", tasks=[["ok"], ["skip"], ["ok"]]), S("B", ["A"], tasks=[["skip"]])]}
    fam["task_cancel_stop"] = {"stages": [S("A", tasks=[["ok"], ["cancel"]]), S("B", ["A"])]}
    fam["task_stop"] = {"stages": [S("A", tasks=[["stop"]]), S("B", ["A"])]}
    fam["or_split"] = {"stages": [S("A", tasks=[["ok:k1=1"]], split="OR", conds={"B": "k1 == 1", "C": "k1 == 2"}),
                                  S("B", ["A"]), S("C", ["A"]), S("D", ["B", "C"], join="OR")]}
    thorough = tier == "thorough"
    cases = []

    def add(**kw):
        kw.setdefault("seed", rng.randrange(1 << 30))
        cases.append(kw)
    rnd = [("rand%d" % i, engine_corr.random_spec(rng, {"joins", "skip"})) for i in range(60 if thorough else 14)]
    for name, spec in list(fam.items()) + rnd:
        add(name=name, spec=spec, policy="fifo", all_prefixes=True, n_snaps=6 if thorough else 3)
        for pol in (["lifo", "random", "random", "random"] if thorough else ["random"]):
            add(name=name, spec=spec, policy=pol, all_prefixes=thorough)
    fam["cycle_mid"] = {"stages": [S("A", tasks=[["ok"]]), S("M", ["A"], tasks=[["ok"]]), S("B", ["M"], tasks=[["jump:A", "ok"]]), S("C", ["B"])]}
    cancel_fams = list(fam) if thorough else ["chain3", "diamond", "multitask", "poll", "self_loop", "suspend", "first_of"]
    for name in cancel_fams:
        for at in (range(0, 24, 1) if thorough else (2, 5, 8, 11, 14)):
            add(name=name, spec=fam[name], policy="fifo" if at % 2 else "random", cancel_at=at)
    if not thorough:
        # a stage that finished, was re-armed by a backward jump and is cancelled before it starts again: the cancel must
        # land between JumpToStage and the next StartStage, so every position is tried
        for name in ("cycle2", "cycle_mid"):
            for at in range(4, 24):
                add(name=name, spec=fam[name], policy="fifo", cancel_at=at)
    for name, spec in rnd[: (20 if thorough else 4)]:
        add(name=name, spec=spec, policy="random", cancel_at=rng.randint(1, 15))
    return cases


def run_pool(fn, cases, nproc=lib.NPROC):
    if not cases:
        return []
    if nproc <= 1 or len(cases) < 3:
        return [fn(c) for c in cases]
    with ProcessPoolExecutor(max_workers=min(nproc, len(cases))) as ex:
        return list(ex.map(fn, cases, chunksize=max(1, len(cases) // (nproc * 4))))


# ------------------------------------------------------------------------------------------------------
# run / search / replay
# ------------------------------------------------------------------------------------------------------

def _viol_replay_log(o: dict, v: dict) -> Violation:
    return Violation(what=v["what"], signature=v["sig"],
                     replay={"kind": "replay-log", "log": o["log"], "wf": v.get("wf"), "as_of": v.get("as_of"),
                             "snaps": v.get("snaps"), "how": "append the events to a SqliteEventStore and call "
                             "EventReplayer.rebuild_workflow_state(workflow, as_of_sequence)"})


def _viol_engine(o: dict, v: dict) -> Violation:
    return Violation(what=v["what"], signature=v["sig"],
                     replay={"kind": "engine-events", "spec": o["spec"], "actions": o["actions"], "entity": v.get("entity"),
                             "case": o["case"], "how": "driver.Env(spec, events=True): submit, deliver the listed queue rows in order "
                             "(C = cancel), then compare EventReplayer.rebuild_workflow_state() with store.retrieve()"})


def run(ctx) -> RunResult:
    t0 = time.time()
    thorough = ctx.tier == "thorough"
    res = RunResult(rule="A: one case = an event log appended to a real SqliteEventStore, queried through the real EventReplayer "
                         "(full, as of every sequence, after each snapshot saved through SnapshotStore) -- non-trivial = log with >= 1 "
                         "status-setting event; B: one case = (workflow spec, schedule) run on the real engine with events on -- "
                         "non-trivial = >= 1 handler recorded an event; distinct = distinct (log) resp. (spec, delivered row ids)")
    # ---------------- A
    rcases = replay_cases(ctx.rng, 900 if thorough else 150, thorough)
    routs = run_pool(run_replay_case, rcases)
    terms, meta = replay_terms(routs)
    fail, err = lib.coq_failing_indices(REQ, CHECK_REPLAY, CASE_T_REPLAY, terms, f"c12_replay_{os.getpid()}", shard=60 if thorough else 40)
    if err:
        res.disagreements.append({"what": "model evaluation failed (replay)", "detail": err[:800]})
    for i in fail[:6]:
        m = meta[i]
        res.disagreements.append({"what": "EventsM replay/rebuild differs from EventReplayer", "cat": m["cat"], "kind": m["kind"],
                                  "log": m["log"][:12], "first_queries": [{k: q[k] for k in ("wf", "snaps", "as_of")} for q in m.get("queries", [])[:3]]})
    nq = sum(len(o["queries"]) + (1 if "fold" in o else 0) for o in routs)
    dist_a = {}
    for o in routs:
        c = o["cat"].split(":")[0]
        dist_a[c] = dist_a.get(c, 0) + 1
        for v in o["violations"]:
            res.violations.append(_viol_replay_log(o, v))
    setting = {"WORKFLOW_STARTED", "WORKFLOW_COMPLETED", "WORKFLOW_FAILED", "WORKFLOW_CANCELED", "WORKFLOW_PAUSED", "WORKFLOW_RESUMED",
               "STAGE_STARTED", "STAGE_COMPLETED", "STAGE_FAILED", "STAGE_SKIPPED", "STAGE_CANCELED", "TASK_STARTED", "TASK_COMPLETED", "TASK_FAILED"}
    nontriv_a = len({json.dumps(o["log"], sort_keys=True) for o in routs if any(e["kind"] in setting for e in o["log"])})
    res.evaluations += nq
    res.distribution["A_replay"] = {"logs": len(routs), "queries": nq, "categories": dist_a,
                                    "log_length": _hist([len(o["log"]) for o in routs]),
                                    "snapshots_saved": sum(len(c["snap_plan"]) for c in rcases),
                                    "direct_folds_permuted": sum(1 for o in routs if "fold" in o),
                                    "event_kinds": _count(e["kind"] for o in routs for e in o["log"])}
    res.samples.append({"part": "A", "cat": routs[len(CORNER_LOGS)]["cat"], "log": routs[len(CORNER_LOGS)]["log"][:6],
                        "first_query": routs[len(CORNER_LOGS)]["queries"][0]})
    ta = time.time() - t0
    # ---------------- B
    ecases = engine_cases(ctx.rng, ctx.tier)
    eouts = run_pool(run_engine_case, ecases)
    rec_terms, rec_meta, rep_terms, rep_meta = engine_terms(eouts)
    fail, err = lib.coq_failing_indices(REQ, CHECK_REC, CASE_T_REC, rec_terms, f"c12_rec_{os.getpid()}", shard=40)
    if err:
        res.disagreements.append({"what": "model evaluation failed (recording)", "detail": err[:800]})
    for i in fail[:6]:
        o = eouts[i]
        res.disagreements.append({"what": "EventsM.record_of / run_store / agrees differs from the engine's recorded events / store",
                                  "name": rec_meta[i]["name"], "policy": rec_meta[i]["policy"], "spec": o["spec"], "actions": o["actions"][:60],
                                  "deliveries": [{"handler": d["handler"], "steps": d["steps"],
                                                  "events": [(e["kind"], e["ety"], e["eid"], e["status"]) for e in d["events"]]}
                                                 for d in o["deliveries"]][:40]})
    fail, err = lib.coq_failing_indices(REQ, CHECK_REPLAY, CASE_T_REPLAY, rep_terms, f"c12_erep_{os.getpid()}", shard=25)
    if err:
        res.disagreements.append({"what": "model evaluation failed (engine replay)", "detail": err[:800]})
    for i in fail[:6]:
        res.disagreements.append({"what": "EventsM.rebuild differs from EventReplayer on an engine log", "name": rep_meta[i]["name"],
                                  "spec": rep_meta[i]["spec"], "actions": rep_meta[i]["actions"][:60]})
    known_seen = 0
    depth_max = 0
    for o in eouts:
        depth_max = max(depth_max, o.get("scope_depth_max", 0))
        for v in o["violations"]:
            if v["sig"] == SIG_SKIP:
                known_seen += 1
            res.violations.append(_viol_engine(o, v))
    res.evaluations += len(eouts) + sum(len(o["queries"]) for o in eouts)
    res.traces_validated = len(routs) + len(eouts)
    distinct_b = {json.dumps(o["actions"]) + json.dumps(o["spec"], sort_keys=True) for o in eouts if any(d["events"] for d in o["deliveries"])}
    res.distinct_nontrivial = nontriv_a + len(distinct_b)
    res.distribution["B_engine"] = {
        "runs": len(eouts), "families": _count((o["case"].get("name") or "?").rstrip("0123456789") for o in eouts),
        "policies": _count(o["case"].get("policy") for o in eouts), "with_cancel": sum(1 for o in eouts if o["case"].get("cancel_at") is not None),
        "final_workflow_status": _count(dict((tuple(k), v) for k, v in o["store"]).get(("wf", 0)) for o in eouts),
        "deliveries_with_writes_or_events": sum(len(o["deliveries"]) for o in eouts),
        "events_total": sum(len(o["log"]) for o in eouts), "rebuild_queries": sum(len(o["queries"]) for o in eouts),
        "lifecycle_steps": _count(s[0] for o in eouts for d in o["deliveries"] for s in d["steps"]),
        "event_kinds": _count(e["kind"] for o in eouts for e in o["log"]),
        "runs_reproducing_task_skip_finding": known_seen, "txn_scope_depth_max": depth_max,
    }
    if depth_max > 1:
        res.disagreements.append({"what": "a handler nested store.transaction() blocks (TxnScope depth > 1): outside the flat discipline "
                                          "of C13_publish_after_commit", "depth": depth_max})
    o = eouts[0]
    res.samples.append({"part": "B", "name": o["case"].get("name"), "spec": o["spec"], "actions": o["actions"][:20],
                        "deliveries": [{"handler": d["handler"], "steps": d["steps"]} for d in o["deliveries"][:6]]})
    res.extra["part_a_wall_s"] = round(ta, 1)
    res.extra["part_b_wall_s"] = round(time.time() - t0 - ta, 1)
    res.notes.append("known finding F6 (task completes SKIPPED without an event) is reported with signature " + SIG_SKIP)
    return res


def _hist(xs):
    h = {}
    for x in xs:
        b = f"{(x // 5) * 5}-{(x // 5) * 5 + 4}"
        h[b] = h.get(b, 0) + 1
    return h


def _count(it):
    h = {}
    for x in it:
        h[str(x)] = h.get(str(x), 0) + 1
    return h


def search(ctx, broken) -> list:
    """look harder on the implementation alone: more logs, every snapshot position, more schedules"""
    vs = []
    rcases = replay_cases(ctx.rng, 400, True)
    for o in run_pool(run_replay_case, rcases):
        for v in o["violations"]:
            vs.append(_viol_replay_log(o, v))
    # the cancel-injection cases come last in the plan: take them first for the families with jumps / loops / synthetic
    # stages (a re-armed stage that is then cancelled or skipped is where replay and store part most easily), then the rest
    allc = engine_cases(ctx.rng, "thorough")
    loops = [c for c in allc if "cancel_at" in c and any(t in (c.get("name") or "") for t in ("loop", "cycle", "jump", "jsyn", "fwd"))]
    others = [c for c in allc if "cancel_at" in c and c not in loops]
    plain = [c for c in allc if "cancel_at" not in c]
    ctx.rng.shuffle(others)
    ecases = (loops + plain[:300] + others)[:900]
    for o in run_pool(run_engine_case, ecases):
        for v in o["violations"]:
            vs.append(_viol_engine(o, v))
    return vs


def replay(obj) -> bool:
    r = obj["replay"]
    sig = obj.get("signature")
    if r.get("kind") == "replay-log":
        log = [{k: v for k, v in e.items() if k != "seq"} for e in r["log"]]
        for e in log:
            for f in ("ctx", "outs"):
                if e.get(f) is not None:
                    e[f] = [tuple(x) for x in e[f]]
        nlog = len(log)
        case = {"cat": "replay", "log": log, "snap_plan": [(r.get("wf") or 1, k, i + 1) for i, k in enumerate(range(0, nlog + 1))],
                "extra_as_of": []}
        if r.get("snaps"):
            case["snap_plan"] = [(r.get("wf") or 1, k, v) for v, k in r["snaps"]]
        o = run_replay_case(case)
        return not any(v["sig"] == sig for v in o["violations"])
    if r.get("kind") == "engine-events":
        c = dict(r.get("case", {}))
        c["spec"] = r["spec"]
        c["actions"] = r["actions"]
        c.setdefault("seed", 0)
        c.setdefault("policy", "fifo")
        cancel_idx = None
        nd = 0
        for a in r["actions"]:
            if a[0] == "C":
                cancel_idx = nd
            if a[0] == "D":
                nd += 1
        c["cancel_at"] = cancel_idx
        o = run_engine_case(c)
        return not any(v["sig"] == sig for v in o["violations"])
    return True
