"""C13 -- events and the state they describe commit together; subscribers are notified only of committed events;
sequence numbers are unique and increasing.

Proof side: coq/props/C13.v over the transaction-scope machine of coq/model/EventsM.v (tstep / trun) and the record-call
positions of coq/gen/Gen_Events.v (harness/tr/events.py).

Correspondence (every invocation; model definitions evaluated inside Coq by vm_compute):
  A. transaction-scope differential.  Random statement sequences -- `with store.transaction()` blocks (also nested, with
     the inner exception swallowed), txn.mark_message_processed (DML without commit), store.mark_message_processed (DML +
     commit), recorder._record(event) inside / outside a block, block left by COMMIT or by an exception, process death at
     any point -- run against the REAL SqliteWorkflowStore.transaction / EventRecorder / txn_scope / EventBus (synchronous
     subscriber) with the event store in the SAME database and in ANOTHER one.  After EVERY statement the durable
     processed_messages rows, the durable events rows (sequence, tag) read through a separate connection, and the list
     handed to the subscriber are compared with EventsM.trun (durable writes, durable log, published).
  B. engine runs with event sourcing on, crash injector at EVERY write commit of FIFO runs of the named families (then
     restart + recovery + drain), plus two fault injectors: an exception raised inside the completion transaction right
     after the event append, and a stage-version bump that makes txn.store_stage raise a real ConcurrencyError.  After every
     write commit the new audit rows (status writes, SQL triggers) and the new events rows are read: per handler
     invocation this commit trace must equal EventsM.commit_trace of the handler's statement list (lstep_ops: record call
     inside / after / before the transaction as read off the source), a crashed invocation must show a prefix of it.
Monitors (implementation only): per commit, a CompleteTask / CompleteStage completion event iff the completion's status
write is in the same commit; nothing of a rolled-back or crashed commit is visible afterwards; every event handed to the
synchronous subscriber is in the events table at that moment (read through another connection), hand-over order =
sequence order, no event handed over twice; sequence numbers strictly increase.
"""
from __future__ import annotations

import json
import os
import random
import sqlite3
import time
from datetime import UTC, datetime, timedelta

from harness import lib
from harness.lib import RunResult, Violation
from harness.props import c12 as E

PID = "C13"
COQ_TARGETS = ["props/C13.vo"]
THEOREMS = [
    "Stab.props.C13.C13_atomic",
    "Stab.props.C13.C13_atomic_complete_task",
    "Stab.props.C13.C13_complete_task_never_lacks_event",
    "Stab.props.C13.C13_atomic_complete_stage",
    "Stab.props.C13.C13_complete_stage_never_lacks_event",
    "Stab.props.C13.C13_publish_after_commit",
    "Stab.props.C13.C13_aborted_scope_publishes_nothing",
    "Stab.props.C13.C13_committed_scope_publishes",
    "Stab.props.C13.C13_sequence",
    "Stab.props.C13.C13_log_sorted",
    "Stab.props.C13.C13_publish_nested_refuted",
    "Stab.props.C13.C13_stage_error_path_refuted",
    "Stab.props.C13.C13_stage_error_path_fixed",
    "Stab.props.C13.C13_after_txn_window_observation",
]
TRUSTED_BASE = [
    "SQLite: a transaction is atomic and durable (COMMIT makes all of its statements durable, ROLLBACK / process death none); "
    "another connection sees only committed rows; AUTOINCREMENT hands out max+1 and sqlite_sequence is rolled back with the row "
    "(model: db_ctr is part of the database value) -- exercised by part A after every statement",
    "one connection per (thread, database): ConnectionManager gives the workflow store and a same-database event store the same "
    "sqlite3 connection (checked at run time), so conn.commit() commits the event append and the state together",
    "one handler at a time per thread (TxnScope is thread-local); bus subscriber SYNC mode (ASYNC delivery is modelled, not verified)",
    "harness/tr/events.py reads, per handler, whether each record_* call is lexically inside / after / before the "
    "`with self.repository.transaction(...)` blocks; the resulting statement lists are compared with the real per-commit trace (part B)",
]
ASSUMPTIONS = [
    "event store in the same database as the workflow store (C13's quantifier; premise same_db = true of C13_atomic*); "
    "C13_publish_after_commit and C13_sequence also cover an event store in another database",
    "transaction blocks are not nested (flat_from; maximal TxnScope depth observed in every engine run = 1): with nesting and a "
    "swallowed inner exception the deferred publication survives the rollback (C13_publish_nested_refuted, reproduced in part A)",
    "atomicity is claimed, as in the property text, for completions made by CompleteTask / CompleteStage; StartWorkflow, StartStage, "
    "StartTask and CancelStage append their event in a separate commit AFTER the state commit, SkipStage and CompleteWorkflow BEFORE it "
    "(C13_after_txn_window_observation): a crash in between leaves state without event (resp. event without state)",
    "a BaseException (KeyboardInterrupt, SystemExit) inside a transaction block is not caught by `except Exception`: the TxnScope "
    "stays bound to the thread; modelled as process death (OCrash)",
]

SIG_ERRPATH = "atomic:complete-stage-error-path-no-event"
REQ = E.REQ


# ------------------------------------------------------------------------------------------------------
# A. transaction-scope differential
# ------------------------------------------------------------------------------------------------------

class _Inject(Exception):
    pass


class _Die(BaseException):
    pass


def gen_ops(rng: random.Random, nested: bool) -> list:
    """well-bracketed statement list; ('B',) ('W',t) ('A',t) ('R',t) ('C',) ('X',)=abort ('K',)=crash"""
    ops = []
    tag = [0]

    def t():
        tag[0] += 1
        return tag[0]

    def body(depth, budget):
        n = rng.randint(0, 4)
        for _ in range(n):
            r = rng.random()
            if r < 0.30:
                ops.append(("R", t()))
            elif r < 0.55:
                ops.append(("W", t()))
            elif r < 0.62:
                ops.append(("A", t()))
            elif r < 0.66 and depth > 0:
                ops.append(("K",))
                return False
            elif r < 0.85 and nested and depth < 3 and budget[0] > 0:
                budget[0] -= 1
                ops.append(("B",))
                alive = body(depth + 1, budget)
                if not alive:
                    return False
                ops.append(("C",) if rng.random() < 0.6 else ("X",))
        return True
    for _ in range(rng.randint(1, 5)):
        r = rng.random()
        if r < 0.2:
            ops.append(("R", t()))
        elif r < 0.3:
            ops.append(("A", t()))
        elif r < 0.35:
            ops.append(("K",))
        else:
            ops.append(("B",))
            if body(1, [3]):
                ops.append(("C",) if rng.random() < 0.6 else ("X",))
    return ops


SCOPE_CORNERS = {
    "commit": [("B",), ("W", 1), ("R", 2), ("C",)],
    "rollback-after-append": [("B",), ("W", 1), ("R", 2), ("X",), ("R", 3)],
    "crash-after-append": [("B",), ("W", 1), ("R", 2), ("K",), ("R", 3)],
    "sequence-reuse-after-rollback": [("R", 1), ("B",), ("R", 2), ("R", 3), ("X",), ("B",), ("R", 4), ("C",)],
    "record-outside": [("R", 1), ("R", 2), ("A", 3)],
    "autocommit-inside-block": [("B",), ("R", 1), ("A", 2), ("R", 3), ("X",)],
    "nested-inner-abort-swallowed": [("B",), ("B",), ("R", 1), ("X",), ("C",)],
    "nested-inner-commit-outer-abort": [("B",), ("W", 1), ("B",), ("R", 2), ("C",), ("R", 3), ("X",)],
    "nested-both-commit": [("B",), ("R", 1), ("B",), ("R", 2), ("W", 3), ("C",), ("C",)],
}


def run_scope_case(case: dict) -> dict:
    """execute the statement list on the real store / recorder / bus; observe after every statement"""
    lib.ensure_repo_on_path()
    import logging
    logging.disable(logging.CRITICAL)
    from stabilize import SqliteWorkflowStore
    from stabilize.events import configure_event_sourcing, get_event_bus, reset_event_bus, reset_event_recorder, txn_scope
    from stabilize.events.base import EntityType, EventType, create_task_event, EventMetadata
    from stabilize.events.store.sqlite import SqliteEventStore
    from stabilize.persistence.connection import ConnectionManager, SingletonMeta
    ops = [tuple(o) for o in case["ops"]]
    same_db = case["same_db"]
    d = lib.scratch_dir("c13a")
    url = f"sqlite:///{d}/w.db"
    eurl = url if same_db else f"sqlite:///{d}/e.db"
    published: list = []
    obs: list = []
    state = {}

    def boot():
        try:
            ConnectionManager().close_all()
        except Exception:
            pass
        SingletonMeta.reset(ConnectionManager)
        reset_event_bus()
        reset_event_recorder()
        txn_scope._local.scope = None
        state["store"] = SqliteWorkflowStore(url, create_tables=True)
        state["es"] = SqliteEventStore(eurl, create_tables=True)
        state["rec"] = configure_event_sourcing(state["es"])
        get_event_bus().subscribe("verif", lambda ev: published.append((ev.sequence, ev.data.get("tag"))))

    def observe():
        h = sqlite3.connect(f"{d}/w.db", timeout=30)
        he = h if same_db else sqlite3.connect(f"{d}/e.db", timeout=30)
        try:
            ws = [int(r[0][1:]) for r in h.execute("SELECT message_id FROM processed_messages ORDER BY rowid")]
            log = [(r[0], json.loads(r[1]).get("tag")) for r in he.execute("SELECT sequence, data FROM events ORDER BY sequence")]
        finally:
            h.close()
            if he is not h:
                he.close()
        obs.append((ws, log, list(published)))

    def record(tag):
        ev = create_task_event(EventType.CUSTOM, task_id="t", workflow_id="w", version=1, data={"tag": tag},
                               metadata=EventMetadata(correlation_id="w"))
        state["rec"]._record(ev)

    pos = [0]

    def block(depth):
        """runs statements until the matching C / X (returns 'C'/'X') or the end of the list"""
        while pos[0] < len(ops):
            o = ops[pos[0]]
            pos[0] += 1
            k = o[0]
            if k == "B":
                try:
                    with state["store"].transaction() as txn:
                        state.setdefault("txns", []).append(txn)
                        end = block(depth + 1)
                        state["txns"].pop()
                        if end == "X":
                            raise _Inject()
                except _Inject:
                    pass          # the caller swallows the exception (for an inner block: the outer block goes on)
                observe()
            elif k == "W":
                if depth > 0:
                    state["txns"][-1].mark_message_processed(message_id=f"w{o[1]}", handler_type="verif", execution_id="w")
                else:
                    # DML outside a transaction object without commit does not occur in the engine; use the committing form
                    state["store"].mark_message_processed(f"w{o[1]}", "verif", "w")
                observe()
            elif k == "A":
                state["store"].mark_message_processed(f"w{o[1]}", "verif", "w")
                observe()
            elif k == "R":
                record(o[1])
                observe()
            elif k in ("C", "X"):
                if depth == 0:
                    observe()
                    continue
                if k == "C":
                    # the observation for OCommit / OAbort is made by the caller after the with-block has been left;
                    # inside the block nothing is observed for this statement
                    return "C"
                return "X"
            elif k == "K":
                raise _Die()
        return "C"

    try:
        boot()
        while pos[0] < len(ops):
            try:
                block(0)
            except _Die:
                state["txns"] = []
                boot()
                observe()
        return {"case": case, "obs": obs, "conn_shared": None}
    finally:
        try:
            ConnectionManager().close_all()
        except Exception:
            pass
        SingletonMeta.reset(ConnectionManager)
        reset_event_bus()
        reset_event_recorder()
        txn_scope._local.scope = None
        lib.rm_rf(d)


def model_ops(ops: list) -> list[str]:
    """the same statement list in the model's vocabulary; a 'W' outside any block is the committing form"""
    out = []
    depth = 0
    for o in ops:
        k = o[0]
        if k == "B":
            out.append("OBegin")
            depth += 1
        elif k == "W":
            out.append(f"(OWrite (mkW EWf RUNNING true {o[1]}))" if depth > 0 else f"(OAutoWrite (mkW EWf RUNNING true {o[1]}))")
        elif k == "A":
            out.append(f"(OAutoWrite (mkW EWf RUNNING true {o[1]}))")
        elif k == "R":
            out.append(f"(ORecord (mkEvent 0 0 E_CUSTOM ET_TASK 0 0 None None None [] {o[1]}))")
        elif k == "C":
            out.append("OCommit")
            depth = max(0, depth - 1)
        elif k == "X":
            out.append("OAbort")
            depth = max(0, depth - 1)
        elif k == "K":
            out.append("OCrash")
            depth = 0
    return out


def scope_term(o: dict) -> str:
    ops = [tuple(x) for x in o["case"]["ops"]]
    mops = model_ops(ops)
    # real observations: one per statement, except that a Begin's observation is recorded when its block has been left
    # (after the matching C / X) -- re-align: we compare the model state after statement i with the real observation that
    # was taken right after statement i completed.
    obs = o["obs"]
    exp = E.q_list("(%s, %s, %s)" % (E.q_list(str(w) for w in ws), E.q_list(f"({s}, {t})" for s, t in log),
                                     E.q_list(f"({s}, {t})" for s, t in pub)) for ws, log, pub in obs)
    return "(%s, %s, %s, %s)" % ("true" if o["case"]["same_db"] else "false", E.q_list(mops),
                                 E.q_list(str(i) for i in obs_points(ops)), exp)


def obs_points(ops: list) -> list[int]:
    """index (number of statements executed) at which each real observation was taken, in the order they were taken"""
    pts = []
    depth = 0
    i = 0
    n = len(ops)
    # replay the control flow of run_scope_case.block
    stack = []
    while i < n:
        k = ops[i][0]
        i += 1
        if k == "B":
            depth += 1
            stack.append(i)
        elif k in ("W", "A", "R"):
            pts.append(i)
        elif k in ("C", "X"):
            if depth == 0:
                pts.append(i)
            else:
                depth -= 1
                stack.pop()
                pts.append(i)
        elif k == "K":
            depth = 0
            stack = []
            pts.append(i)
    # blocks still open at the end of the list are left by COMMIT (the with-block ends): the model gets explicit OCommits
    return pts


CHECK_SCOPE = (
    "fun c => match c with (same_db, ops, pts, exp) => "
    "list_eqb (fun a b => match a, b with (w1, l1, p1), (w2, l2, p2) => "
    "  list_eqb N.eqb w1 w2 && list_eqb pair_eqb l1 l2 && list_eqb pair_eqb p1 p2 end) "
    " (map (fun n => let s := trun same_db init_tstate (firstn (N.to_nat n) ops) in "
    "   (map wr_tag (db_writes (durable s)), map (fun e => (seq e, etag e)) (db_log (durable s)), "
    "    map (fun e => (seq e, etag e)) (published s))) pts) exp end")
CASE_T_SCOPE = "bool * list op * list N * list (list N * list (N * N) * list (N * N))"


def close_blocks(ops: list) -> list:
    """append the COMMITs of blocks left open at the end of the list (the with-blocks end normally)"""
    depth = 0
    for o in ops:
        if o[0] == "B":
            depth += 1
        elif o[0] in ("C", "X"):
            depth = max(0, depth - 1)
        elif o[0] == "K":
            depth = 0
    return list(ops) + [("C",)] * depth


def scope_cases(rng: random.Random, n: int) -> list[dict]:
    cases = []
    for name, ops in SCOPE_CORNERS.items():
        for same in (True, False):
            cases.append({"name": "corner:" + name, "ops": close_blocks(ops), "same_db": same})
    while len(cases) < n:
        nested = rng.random() < 0.35
        ops = close_blocks(gen_ops(rng, nested))
        cases.append({"name": "nested" if nested else "flat", "ops": ops, "same_db": rng.random() < 0.7})
    return cases


def scope_monitor(o: dict) -> list[dict]:
    """implementation-side: published is an order-preserving sub-list of the durable log at every observation (flat cases);
    sequences strictly increase"""
    vs = []
    ops = [tuple(x) for x in o["case"]["ops"]]
    flat = _is_flat(ops)
    for (ws, log, pub) in o["obs"]:
        seqs = [s for s, _ in log]
        if any(b <= a for a, b in zip(seqs, seqs[1:])) or any(s <= 0 for s in seqs):
            vs.append({"what": f"event sequence numbers not strictly increasing: {seqs}", "sig": "sequence:not-increasing"})
            break
        if flat and not _is_subseq(pub, log):
            vs.append({"what": f"a subscriber was handed {pub} while the durable log is {log}", "sig": "publish:not-durable"})
            break
    return vs


def _is_flat(ops) -> bool:
    depth = 0
    for o in ops:
        if o[0] == "B":
            if depth > 0:
                return False
            depth += 1
        elif o[0] in ("C", "X"):
            depth = max(0, depth - 1)
        elif o[0] == "K":
            depth = 0
    return True


def _is_subseq(a, b) -> bool:
    it = iter(b)
    return all(any(x == y for y in it) for x in a)


# ------------------------------------------------------------------------------------------------------
# B. engine: crash at every commit, fault injection, per-commit trace
# ------------------------------------------------------------------------------------------------------

COMPLETION_EVENTS = {"task.completed": "task", "task.failed": "task", "stage.completed": "stage", "stage.failed": "stage",
                     "stage.skipped": "stage"}
COMPLETION_HANDLERS = {"CompleteTaskHandler": "CompleteTask", "CompleteStageHandler": "CompleteStage"}


def run_crash_case(case: dict) -> dict:
    """FIFO run with event sourcing on; the write commit number `at` (global) is rolled back and the process dies there;
    then restart + recovery + FIFO drain.  fault = ('exc', n) | ('cas', n): the n-th completion transaction gets an exception
    right after the event append / a stage-version bump before txn.store_stage."""
    rng = random.Random(case["seed"])
    spec = case["spec"]
    E._TAGS = {}
    env = E.make_env(spec, tag="c13b")
    out = {"case": {k: v for k, v in case.items() if k != "spec"}, "spec": spec, "invocations": [], "violations": [], "actions": []}
    restore = []
    try:
        ids = E.Ids(env)
        t0 = datetime.now(UTC) - timedelta(seconds=5)
        marks = {"a": env.audit_max(), "e": env.ev_max()}
        cur = {"handler": None, "commits": None, "index": -1}
        fault = case.get("fault")
        injected = {"done": False, "count": 0, "at_handler": None}
        out["conn_shared"] = env.store._get_connection() is env.event_store._get_connection()

        def delta():
            rows = [r for r in env.audit(marks["a"]) if r["kind"] in ("workflow", "stage", "task")]
            evs = env.ev_rows(marks["e"])
            marks["a"], marks["e"] = env.audit_max(), env.ev_max()
            return rows, evs

        def check_commit(rows, evs, handler):
            """the C13 monitor on one commit: completion event <-> completion write"""
            for ev in evs:
                kind = COMPLETION_EVENTS.get(ev["event_type"])
                h = COMPLETION_HANDLERS.get(ev["source_handler"] or "")
                if kind is None or h is None:
                    continue
                data = json.loads(ev["data"] or "{}")
                st = data.get("status") or ("SKIPPED" if ev["event_type"] == "stage.skipped" else None)
                match = [r for r in rows if r["kind"] == kind and r["ent"] == ev["entity_id"] and r["new"] == st]
                if not match:
                    cur_st = env.hconn.execute(
                        f"SELECT status FROM {'task_executions' if kind == 'task' else 'stage_executions'} WHERE id = ?",
                        (ev["entity_id"],)).fetchone()
                    if cur_st is not None and cur_st[0] == st and st == "SKIPPED":
                        continue   # a task already SKIPPED by StartTask: no status change to pair with (after the F6 repair)
                    out["violations"].append({"what": f"{ev['event_type']} ({st}) of {h} became durable in a commit that does not "
                                                      f"contain the {kind}'s status write",
                                              "sig": f"atomic:event-without-state:{h}"})
            if handler in ("CompleteTask", "CompleteStage"):
                kind = "task" if handler == "CompleteTask" else "stage"
                for r in rows:
                    if r["kind"] != kind or r["new"] not in E.COMPLETE:
                        continue
                    if kind == "task" and r["new"] == "SKIPPED":
                        continue   # C12's known finding (no event type for a skipped task)
                    evm = [ev for ev in evs if ev["entity_id"] == r["ent"] and COMPLETION_EVENTS.get(ev["event_type"]) == kind]
                    if not evm:
                        errpath = (handler == "CompleteStage" and injected.get("at_index") == cur.get("index")
                                   and fault is not None and fault[0] == "exc" and r["new"] == "TERMINAL")
                        out["violations"].append({
                            "what": (f"{handler} committed {kind} status {r['new']} without its completion event"
                                     + (" (exception path of CompleteStageHandler after the injected failure)" if errpath else "")),
                            "sig": SIG_ERRPATH if errpath else f"atomic:state-without-event:{handler}:{r['new']}"})

        def on_commit():
            rows, evs = delta()
            if rows or evs:
                cur["commits"].append((rows, evs))
                check_commit(rows, evs, cur["handler"])

        # ---- fault injectors
        if fault:
            from stabilize.events.store.sqlite.events import SqliteEventStoreMixin
            from stabilize.persistence.sqlite.transaction import AtomicTransaction
            if fault[0] == "exc":
                orig = SqliteEventStoreMixin.append_batch

                def patched(self, events, connection=None):
                    res = orig(self, events, connection)
                    if events and events[0].event_type.value in COMPLETION_EVENTS and connection is not None:
                        if injected["count"] == fault[1] and not injected["done"]:
                            injected["done"] = True
                            injected["at_handler"] = cur["handler"]
                            injected["at_index"] = cur["index"]
                            raise RuntimeError("verif: injected failure after the event append")
                        injected["count"] += 1
                    return res
                SqliteEventStoreMixin.append_batch = patched
                restore.append(lambda: setattr(SqliteEventStoreMixin, "append_batch", orig))
            elif fault[0] == "late":
                # the n-th completion transaction fails AFTER the event was appended and the recorder returned: when the
                # handler marks the message processed (the last statement before COMMIT).  Everything rolls back and the
                # message is delivered again in the same process: the retry must record its completion event again.
                orig_mp = AtomicTransaction.mark_message_processed

                def patched_mp(self, *a, **kw):
                    if cur["handler"] in ("CompleteTask", "CompleteStage") and not injected["done"]:
                        if injected["count"] == fault[1]:
                            injected["done"] = True
                            injected["at_handler"] = cur["handler"]
                            injected["at_index"] = cur["index"]
                            raise RuntimeError("verif: injected failure after the event append (mark_message_processed)")
                        injected["count"] += 1
                    return orig_mp(self, *a, **kw)
                AtomicTransaction.mark_message_processed = patched_mp
                restore.append(lambda: setattr(AtomicTransaction, "mark_message_processed", orig_mp))
            else:
                orig_ss = AtomicTransaction.store_stage

                def patched_ss(self, stage, *a, **kw):
                    if cur["handler"] in ("CompleteTask", "CompleteStage") and not injected["done"]:
                        if injected["count"] == fault[1]:
                            injected["done"] = True
                            injected["at_handler"] = cur["handler"]
                            injected["at_index"] = cur["index"]
                            env.hconn.execute("UPDATE stage_executions SET version = version + 1 WHERE id = ?", (stage.id,))
                        injected["count"] += 1
                    return orig_ss(self, stage, *a, **kw)
                AtomicTransaction.store_stage = patched_ss
                restore.append(lambda: setattr(AtomicTransaction, "store_stage", orig_ss))

        env.submit()
        out["actions"].append(["B"])
        delta()
        at = case.get("at")
        done = 0
        crashed = False
        steps = 0
        while steps < case.get("max_steps", 120):
            if case.get("cancel_at") is not None and steps == case["cancel_at"]:
                env.cancel()
                out["actions"].append(["C"])
                delta()
            rows = env.rows()
            if not rows:
                break
            rid = rows[0]["id"] if case.get("policy", "fifo") == "fifo" else E.pick_row(rows, rng, case["policy"])
            rtype = [r for r in rows if r["id"] == rid][0]["type"]
            cur["handler"], cur["commits"], cur["index"] = rtype, [], steps
            k = None
            if at is not None and not crashed and 0 <= at - done < 14:
                k = at - done
            pub_before = len(env.pub)
            r = env.deliver(rid, crash_at=k, on_commit=on_commit, in_thread=bool(case.get("thread")))
            inv = {"handler": rtype, "row": rid, "crashed": bool(r.get("crashed")), "exception": r.get("exception"),
                   "steps": [], "commits": []}
            if r.get("crashed"):
                crashed = True
                out["actions"].append(["X", rid, k])
                env.restart()
                rows2, evs2 = delta()
                if rows2 or evs2:
                    out["violations"].append({"what": f"after a crash at commit {k} of {rtype}: {len(rows2)} status write(s) and "
                                                      f"{len(evs2)} event(s) of the rolled-back commit are visible",
                                              "sig": "atomic:partial-commit-visible"})
                lost = [p for p in env.pub[pub_before:] if not p[2]]
                env.recover()
                out["actions"].append(["R"])
                delta()
            else:
                out["actions"].append(["D", rid])
                done += r.get("commits", 0)
                # whatever the ack / mark-processed commits added
                rows2, evs2 = delta()
                if rows2 or evs2:
                    cur["commits"].append((rows2, evs2))
                    check_commit(rows2, evs2, rtype)
            allrows = [x for c in cur["commits"] for x in c[0]]
            inv["steps"] = E.classify(rtype, allrows, ids)
            if injected.get("at_index") == steps:
                inv["fault"] = fault[0]
            inv["commits"] = [([(ids.ent(x["kind"], x["ent"]), x["new"]) for x in c[0]],
                               [E.abstract_event_row(e, ids, t0) for e in c[1]]) for c in cur["commits"]]
            if inv["commits"] or inv["crashed"]:
                out["invocations"].append(inv)
            steps += 1
        out["quiescent"] = len(env.rows()) == 0
        out["scope_depth_max"] = E._DEPTH["max"]
        out["fault_fired"] = injected["done"]
        # ---- subscriber log vs durable events
        durable = [r["sequence"] for r in env.ev_rows(0)]
        pubs = [p[0] for p in env.pub]
        if any(not ok for _, _, ok in env.pub):
            bad = [s for s, _, ok in env.pub if not ok]
            out["violations"].append({"what": f"events {bad[:5]} were handed to a subscriber before (or without) being durable",
                                      "sig": "publish:not-durable"})
        if len(set(pubs)) != len(pubs):
            out["violations"].append({"what": "an event was handed to the subscriber twice", "sig": "publish:duplicate"})
        if not _is_subseq(pubs, durable):
            out["violations"].append({"what": f"hand-over order {pubs[:20]} is not an order-preserving sub-list of the durable log",
                                      "sig": "publish:order"})
        if any(b <= a for a, b in zip(durable, durable[1:])):
            out["violations"].append({"what": "sequence numbers not strictly increasing", "sig": "sequence:not-increasing"})
        out["n_events"] = len(durable)
        out["n_published"] = len(pubs)
        return out
    finally:
        for f in restore:
            f()
        env.close()


def crash_terms(outs: list[dict]) -> tuple[list[str], list[dict]]:
    """per handler invocation: (crashed?, lifecycle steps, observed commit trace)"""
    terms, meta = [], []
    for o in outs:
        invs = []
        for inv in o["invocations"]:
            if inv.get("fault") or inv.get("exception"):
                continue    # the invocation hit by the injected failure is judged by the monitor, not by the handler's normal statement list
            if any(s[0] == "LForce" for s in inv["steps"]):
                continue    # bulk force-marks (jump resets, suspend) are one commit of many writes and record nothing (checked by C12 part B)
            if not inv["steps"]:
                continue    # no status write to classify: died before it (a BeforeTxn event may already be durable), or a StartStage
                            # re-plan after a crash between claim and plan, which records stage.started without a new status write
            tr = E.q_list("(%s, %s)" % (E.q_list(f"({E.q_entity(tuple(x))}, {s})" for x, s in c[0]),
                                        E.q_list("(E_%s, ET_%s, %d, %s)" % (e["kind"], e["ety"], e["eid"], E.q_opt(e["status"])) for e in c[1]))
                           for c in inv["commits"])
            invs.append("(%s, %s, %s)" % ("true" if inv["crashed"] else "false", E.q_list(E.q_lstep(s) for s in inv["steps"]), tr))
        terms.append(E.q_list(invs))
        meta.append({"name": o["case"].get("name"), "at": o["case"].get("at"), "fault": o["case"].get("fault")})
    return terms, meta


# the observed commit trace of an invocation == EventsM.commit_trace of its statement list (a crashed one: a prefix)
CHECK_TRACE = (
    "fun invs : list (bool * list lstep * list (list (entity * status) * list (ekind * etype * N * option status))) => "
    "forallb (fun inv : bool * list lstep * list (list (entity * status) * list (ekind * etype * N * option status)) => "
    "match inv with (crashed, steps, tr) => "
    "let ops := List.concat (map (lstep_ops 0) steps) in "
    "let mt := map (fun c => (map write_sig (fst c), map ev_sig (snd c))) (commit_trace true init_tstate ops) in "
    "let eqw := fun (a b : list (entity * status)) => Nat.eqb (List.length a) (List.length b) && forallb (fun x => existsb (write_sig_eqb x) b) a "
    "                      && forallb (fun x => existsb (write_sig_eqb x) a) b in "
    "let eqc := fun (a b : list (entity * status) * list (ekind * etype * N * option status)) => eqw (fst a) (fst b) && list_eqb ev_sig_eqb (snd a) (snd b) in "
    "if crashed then list_eqb eqc tr (firstn (List.length tr) mt) else list_eqb eqc tr mt end) invs")
CASE_T_TRACE = "list (bool * list lstep * list (list (entity * status) * list (ekind * etype * N * option status)))"


def crash_cases(rng: random.Random, tier: str) -> list[dict]:
    from harness import engine_corr
    fam = dict(engine_corr.families())
    S = engine_corr.S
    fam["task_skip"] = {"stages": [S("A", tasks=[["ok"], ["skip"], ["ok"]]), S("B", ["A"], tasks=[["skip"]])]}
    fam["fail_continue_chain"] = {"stages": [S("A", tasks=[["failc"], ["ok"]]), S("B", ["A"], tasks=[["fail"]]), S("C", ["B"])]}
    thorough = tier == "thorough"
    names = list(fam) if thorough else ["chain3", "diamond", "multitask", "fail_terminal", "continue_on_failure", "poll",
                                        "first_of", "self_loop", "skip_disabled", "task_skip", "fail_continue_chain"]
    cases = []

    def add(**kw):
        kw.setdefault("seed", rng.randrange(1 << 30))
        cases.append(kw)
    for n in names:
        add(name=n, spec=fam[n], at=None)
        for at in range(0, 140 if thorough else 60):
            add(name=n, spec=fam[n], at=at)
        if thorough:
            for at in range(0, 100, 2):
                add(name=n, spec=fam[n], at=at, policy="random")
        for k in range(0, 14 if thorough else 6):
            add(name=n, spec=fam[n], at=None, fault=("exc", k))
            add(name=n, spec=fam[n], at=None, fault=("cas", k))
            # the same faults with every delivery on a fresh worker thread: each completion's event append is then the
            # first use of that thread's connections (schema / pragma set-up on first use must not end the open transaction)
            add(name=n, spec=fam[n], at=None, fault=("exc", k), thread=True)
            add(name=n, spec=fam[n], at=None, fault=("late", k))
        for at in range(0, 140 if thorough else 60, 3):
            add(name=n, spec=fam[n], at=at, thread=True)
        for c in (range(1, 20, 2) if thorough else (3, 7, 11)):
            add(name=n, spec=fam[n], at=None, cancel_at=c)
            add(name=n, spec=fam[n], at=c * 3, cancel_at=c)
    rnd = [("rand%d" % i, engine_corr.random_spec(rng, {"joins", "skip"})) for i in range(60 if thorough else 6)]
    for name, spec in rnd:
        add(name=name, spec=spec, at=None, policy="random")
        for at in range(0, 70, 2 if thorough else 5):
            add(name=name, spec=spec, at=at, policy="fifo" if at % 4 else "random")
        for k in range(0, 6 if thorough else 4):
            add(name=name, spec=spec, at=None, fault=("exc", k))
            add(name=name, spec=spec, at=None, fault=("cas", k), policy="random")
        add(name=name, spec=spec, at=None, cancel_at=rng.randint(1, 12), policy="random")
    return cases


# ------------------------------------------------------------------------------------------------------
# run / search / replay
# ------------------------------------------------------------------------------------------------------

def _viol_scope(o, v) -> Violation:
    return Violation(what=v["what"], signature=v["sig"],
                     replay={"kind": "scope", "ops": [list(x) for x in o["case"]["ops"]], "same_db": o["case"]["same_db"],
                             "how": "B = with store.transaction(); W = txn.mark_message_processed; A = store.mark_message_processed; "
                                    "R = recorder._record(event); C = leave the block; X = raise inside the block; K = process dies"})


def _viol_crash(o, v) -> Violation:
    return Violation(what=v["what"], signature=v["sig"],
                     replay={"kind": "engine-crash", "spec": o["spec"], "case": o["case"], "actions": o["actions"],
                             "how": "driver.Env(spec, events=True): FIFO; X = deliver row with crash_at=k then restart + recover; fault "
                                    "('exc', n): raise after the n-th completion-event append inside the transaction; ('cas', n): bump the "
                                    "stage version before the n-th completion's txn.store_stage"})


def run(ctx) -> RunResult:
    t0 = time.time()
    thorough = ctx.tier == "thorough"
    res = RunResult(rule="A: one case = a statement list over the real store.transaction / recorder / bus, compared after every "
                         "statement -- non-trivial = contains a record call inside a block that does not commit, or a nested block; "
                         "B: one case = (workflow, crash point | injected fault) on the real engine with events on, compared per write "
                         "commit -- non-trivial = the crash / fault fired; distinct = distinct statement list resp. (spec, crash point, fault)")
    # ---------------- A
    scases = scope_cases(ctx.rng, 4000 if thorough else 200)
    souts = E.run_pool(run_scope_case, scases)
    terms = [scope_term(o) for o in souts]
    fail, err = lib.coq_failing_indices(REQ, CHECK_SCOPE, CASE_T_SCOPE, terms, f"c13_scope_{os.getpid()}", shard=100)
    if err:
        res.disagreements.append({"what": "model evaluation failed (scope)", "detail": err[:800]})
    for i in fail[:6]:
        res.disagreements.append({"what": "EventsM.trun differs from store.transaction / recorder / bus", "name": souts[i]["case"]["name"],
                                  "same_db": souts[i]["case"]["same_db"], "ops": souts[i]["case"]["ops"], "observed": souts[i]["obs"][:12]})
    for o in souts:
        for v in scope_monitor(o):
            res.violations.append(_viol_scope(o, v))
    nested_pub = 0
    for o in souts:
        if not _is_flat([tuple(x) for x in o["case"]["ops"]]):
            if any(not _is_subseq(pub, log) for _, log, pub in o["obs"]):
                nested_pub += 1

    def nontrivial_scope(ops):
        depth, rec_in, res_ = 0, False, False
        for x in ops:
            if x[0] == "B":
                depth += 1
                if depth > 1:
                    res_ = True
            elif x[0] == "R" and depth > 0:
                rec_in = True
            elif x[0] in ("X", "K"):
                if rec_in:
                    res_ = True
                depth = 0 if x[0] == "K" else max(0, depth - 1)
                rec_in = rec_in and depth > 0
            elif x[0] == "C":
                depth = max(0, depth - 1)
                rec_in = rec_in and depth > 0
        return res_
    nt_a = len({json.dumps(o["case"]["ops"]) + str(o["case"]["same_db"]) for o in souts if nontrivial_scope([tuple(x) for x in o["case"]["ops"]])})
    res.evaluations += sum(len(o["obs"]) for o in souts)
    res.distribution["A_scope"] = {"sequences": len(souts), "observations": sum(len(o["obs"]) for o in souts),
                                   "same_db": sum(1 for o in souts if o["case"]["same_db"]),
                                   "other_db": sum(1 for o in souts if not o["case"]["same_db"]),
                                   "kinds": E._count(o["case"]["name"].split(":")[0] for o in souts),
                                   "statements": E._count(x[0] for o in souts for x in o["case"]["ops"]),
                                   "nested_sequences_publishing_a_rolled_back_event": nested_pub}
    res.samples.append({"part": "A", "case": souts[10]["case"], "observed_after_each_statement": souts[10]["obs"][:6]})
    ta = time.time() - t0
    # ---------------- B
    ccases = crash_cases(ctx.rng, ctx.tier)
    couts = E.run_pool(run_crash_case, ccases)
    terms, meta = crash_terms(couts)
    fail, err = lib.coq_failing_indices(REQ, CHECK_TRACE, CASE_T_TRACE, terms, f"c13_trace_{os.getpid()}", shard=120)
    if err:
        res.disagreements.append({"what": "model evaluation failed (commit trace)", "detail": err[:800]})
    for i in fail[:6]:
        o = couts[i]
        res.disagreements.append({"what": "the per-commit trace of a handler differs from EventsM.commit_trace (lstep_ops): a record call "
                                          "moved relative to its transaction, or a handler records a different event",
                                  "name": meta[i]["name"], "at": meta[i]["at"], "fault": meta[i]["fault"], "spec": o["spec"],
                                  "invocations": [{"handler": v["handler"], "crashed": v["crashed"], "steps": v["steps"],
                                                   "commits": [([(x, s) for x, s in c[0]], [(e["kind"], e["eid"], e["status"]) for e in c[1]])
                                                               for c in v["commits"]]} for v in o["invocations"]][:30]})
    depth_max, shared = 0, True
    known = 0
    for o in couts:
        depth_max = max(depth_max, o.get("scope_depth_max", 0))
        shared = shared and bool(o.get("conn_shared"))
        for v in o["violations"]:
            if v["sig"] == SIG_ERRPATH:
                known += 1
            res.violations.append(_viol_crash(o, v))
    if depth_max > 1:
        res.disagreements.append({"what": "a handler nested store.transaction() blocks (TxnScope depth > 1)", "depth": depth_max})
    if not shared:
        res.disagreements.append({"what": "the workflow store and the same-database event store do not share one connection"})
    res.evaluations += sum(len(v["commits"]) for o in couts for v in o["invocations"])
    res.traces_validated = len(souts) + len(couts)
    nt_b = len({json.dumps([o["case"].get("name"), o["case"].get("at"), o["case"].get("fault"), o["case"].get("seed") if (o["case"].get("name") or "").startswith("rand") else 0])
                for o in couts if any(v["crashed"] for v in o["invocations"]) or o.get("fault_fired")})
    res.distinct_nontrivial = nt_a + nt_b
    res.distribution["B_engine"] = {
        "runs": len(couts), "crash_runs": sum(1 for o in couts if o["case"].get("at") is not None),
        "crash_fired": sum(1 for o in couts if any(v["crashed"] for v in o["invocations"])),
        "fault_exception_after_append": sum(1 for o in couts if (o["case"].get("fault") or [None])[0] == "exc"),
        "fault_version_conflict": sum(1 for o in couts if (o["case"].get("fault") or [None])[0] == "cas"),
        "faults_fired": sum(1 for o in couts if o.get("fault_fired")),
        "families": E._count((o["case"].get("name") or "?").rstrip("0123456789") for o in couts),
        "crashed_handler": E._count(v["handler"] for o in couts for v in o["invocations"] if v["crashed"]),
        "commits_compared": sum(len(v["commits"]) for o in couts for v in o["invocations"]),
        "events_total": sum(o.get("n_events", 0) for o in couts), "published_total": sum(o.get("n_published", 0) for o in couts),
        "txn_scope_depth_max": depth_max, "runs_reproducing_error_path_finding": known,
    }
    o = couts[5]
    res.samples.append({"part": "B", "name": o["case"].get("name"), "at": o["case"].get("at"), "actions": o["actions"][:12],
                        "invocations": [{"handler": v["handler"], "crashed": v["crashed"], "steps": v["steps"]} for v in o["invocations"][:6]]})
    res.extra["part_a_wall_s"] = round(ta, 1)
    res.extra["part_b_wall_s"] = round(time.time() - t0 - ta, 1)
    return res


def search(ctx, broken) -> list:
    vs = []
    for o in E.run_pool(run_scope_case, scope_cases(ctx.rng, 500)):
        for v in scope_monitor(o):
            vs.append(_viol_scope(o, v))
    for o in E.run_pool(run_crash_case, crash_cases(ctx.rng, "thorough")[:1500]):
        for v in o["violations"]:
            vs.append(_viol_crash(o, v))
    return vs


def replay(obj) -> bool:
    r = obj["replay"]
    sig = obj.get("signature")
    if r.get("kind") == "scope":
        o = run_scope_case({"name": "replay", "ops": [tuple(x) for x in r["ops"]], "same_db": r["same_db"]})
        return not any(v["sig"] == sig for v in scope_monitor(o))
    if r.get("kind") == "engine-crash":
        c = dict(r["case"])
        c["spec"] = r["spec"]
        if c.get("fault"):
            c["fault"] = tuple(c["fault"])
        o = run_crash_case(c)
        return not any(v["sig"] == sig for v in o["violations"])
    return True
