"""C14 — transient failures: bounded number of retries, saved progress is kept; a RUNNING result is polled again
without losing its context.

Theorems: coq/props/C14.v over coq/model/Retry.v (the queue round trip of the retry message, composed from generated
definitions) and coq/model/Engine.v (the RunTask handler at commit granularity).

Correspondence, on every invocation:
  A. round trip   real SqliteQueue.push / AtomicTransaction.push_message -> real poll_one (k redeliveries of the same
                  row) with every carried attempt count, against Retry.redeliver evaluated inside Coq;
  B. decision     the real handlers.run_task.error.handle_exception called with every (message.attempts,
                  message.max_attempts) against Gen_Guards.retry_guard / Gen_Retry.retry_next_attempt inside Coq
                  (the engine runs can never show attempts > 1 -- that is the defect -- so this is the only place the
                  guard is exercised over its whole range);
  C. engine runs  transient x k (k = 0 .. limit+3 and "for ever"), with / without context_update, RUNNING polls with
                  context, the task at any position of a 1-3-task stage, FIFO and shuffled delivery, redelivery of one
                  row without ack and with a crash right after the poll: real engine vs. the extracted Engine model
                  commit by commit (harness/engine_corr), plus the monitors below.

Monitors (the property statement on the real run): executions of the failing task <= documented maximum (known finding
"retries-unbounded"), a task that fails fewer times than the budget is retried until it succeeds, every attempt sees the
context saved by the previous one, other tasks run once, one row is never executed more than queue max_attempts times.
"""
from __future__ import annotations

import json
import random
import sqlite3
import time
from datetime import timedelta

from harness import lib
from harness.lib import RunResult, Violation, cq_Z, cq_bool, cq_nat, cq_opt

PID = "C14"
COQ_TARGETS = ["props/C14.vo", "model/EngineInv.vo"]   # EngineInv: needed by the extracted oracle; keeps it in step with coq/gen
THEOREMS = ["Stab.props.C14." + t for t in (
    "C14_round_trip", "C14_round_trip_increasing_refuted", "C14_unbounded_refuted",
    "C14_unbounded_engine_general", "C14_unbounded_engine_refuted",
    "C14_guard_bounded", "C14_guard_is_the_engine_decision", "C14_terminal_commit",
    "C14_same_row_bounded", "C14_hidden_row_is_dead", "C14_redelivery_counts",
    "C14_progress_kept_one_commit", "C14_progress_kept_effect", "C14_progress_kept_effect_running",
    "C14_progress_kept_values", "C14_progress_kept_across_cut")]
TRUSTED_BASE = [
    "SQLite: a write transaction is atomic; AUTOINCREMENT ids increase",
    "task behaviour is a function of (stage, task, n-th execution) (scripted oracle mirrored by a scripted Python Task)",
    "OCaml extraction of coq/model/Engine.v (ExtrOcamlBasic only) + hand-written I/O driver ocaml/oracle.ml",
    "harness/tr/retry.py + harness/tr/guards.py + harness/tr/queue_sql.py (fail-closed AST readers for the retry round trip)",
]
ASSUMPTIONS = [
    "delays (backoff) only postpone a delivery; they never change which message is delivered (engine model: any row may be delivered at any time)",
    "one handler runs at a time (sequential engine model)",
    "C14_guard_bounded is conditional: it assumes the repaired delivery function (attempts + 1 per retry), which the current tree does NOT satisfy (C14_round_trip)",
]

KNOWN_SIG = "retries-unbounded"
FOREVER = -1


# ------------------------------------------------------------------------------------------------
# A. round trip: real queue vs Retry.redeliver
# ------------------------------------------------------------------------------------------------

def _consts():
    """default budgets as the implementation has them (only used to size the sweeps / name the monitors' limits)"""
    lib.ensure_repo_on_path()
    from stabilize.queue.messages import Message
    from stabilize.queue.sqlite.queue import SqliteQueue
    import inspect
    qmax = inspect.signature(SqliteQueue.__init__).parameters["max_attempts"].default
    mmax = Message.__dataclass_fields__["max_attempts"].default
    return int(qmax), int(mmax)


def round_trip_cases(ctx):
    """-> (coq case strings, python descriptions)"""
    lib.ensure_repo_on_path()
    from stabilize import SqliteQueue, SqliteWorkflowStore
    from stabilize.persistence.connection import ConnectionManager, SingletonMeta
    from stabilize.queue.messages import RunTask
    qmax, mmax = _consts()
    d = lib.scratch_dir("c14rt")
    cases, descr = [], []
    try:
        SingletonMeta.reset(ConnectionManager)
        url = f"sqlite:///{d / 'q.db'}"
        store = SqliteWorkflowStore(url, create_tables=True)
        queue = SqliteQueue(url, table_name="queue_messages")
        queue._create_table()
        h = sqlite3.connect(str(d / "q.db"), timeout=30, isolation_level=None)
        carried = [0, 1, 2, 3, 5, 8, 9, 10, 11, 50] if ctx.tier == "quick" else list(range(0, 14)) + [50, 1000]
        carried += [ctx.rng.randint(0, 40) for _ in range(3)]
        ks = [0, 1, 2, qmax - 2, qmax - 1, qmax, qmax + 1, qmax + 3] if ctx.tier == "quick" else list(range(0, qmax + 4))
        for via in ("queue", "txn"):
            for a in carried:
                h.execute("DELETE FROM queue_messages")
                msg = RunTask(execution_type="PIPELINE", execution_id="e", stage_id="s", task_id="t", task_type="x")
                msg = msg.copy_with_attempts(a)
                msg.max_attempts = 3 + a           # a non-default carried budget: must come back as the default
                if via == "queue":
                    queue.push(msg)
                else:
                    with store.transaction(queue) as txn:
                        txn.push_message(msg)
                seen = []
                for k in range(max(ks) + 1):
                    h.execute("UPDATE queue_messages SET locked_until = NULL, deliver_at = '2000-01-01T00:00:00+00:00'")
                    m = queue.poll_one()
                    seen.append(None if m is None else (int(m.attempts), int(m.max_attempts)))
                for k in ks:
                    obs = seen[k]
                    cases.append("(%s, %s, %s, %s, %s)" % (
                        cq_bool(via == "txn"), cq_Z(a), cq_nat(k),
                        cq_opt(None if obs is None else obs[0], cq_Z), cq_opt(None if obs is None else obs[1], cq_Z)))
                    descr.append({"via": via, "carried_attempts": a, "redelivery": k, "seen": obs})
        h.close()
        try:
            ConnectionManager().close_all()
        except Exception:
            pass
        SingletonMeta.reset(ConnectionManager)
    finally:
        lib.rm_rf(d)
    return cases, descr


RT_REQ = "From Stab.model Require Import Retry.\nFrom Stab.gen Require Import Gen_Guards."
RT_TYPE = "bool * Z * nat * option Z * option Z"
RT_CHECK = ("fun c => match c with (via, a, k, seen, mx) => "
            "match redeliver k (push_row via {| m_attempts := a |}), seen with "
            "| Some x, Some y => Z.eqb x y | None, None => true | _, _ => false end && "
            "match mx with Some m => Z.eqb m default_max_attempts | None => true end end")


# ------------------------------------------------------------------------------------------------
# B. decision: the real handle_exception vs retry_guard / retry_next_attempt
# ------------------------------------------------------------------------------------------------

class _Rec:
    def __init__(self):
        self.calls = []

    def execute_atomic(self, stage=None, source_message=None, messages_to_push=None, handler_name="", **kw):
        self.calls.append(("atomic", stage, source_message, list(messages_to_push or [])))

    def execute_atomic_critical(self, stage=None, source_message=None, messages_to_push=None, handler_name="", **kw):
        self.calls.append(("critical", stage, source_message, list(messages_to_push or [])))


class _FakeStage:
    def __init__(self):
        self.id = "s"
        self.context = {"k0": 1}
        self.outputs = {}

    def failure_status(self, default=None):
        return default


class _FakeRepo:
    def __init__(self):
        self.stage = _FakeStage()

    def retrieve_stage(self, _id):
        return self.stage


class _FakeTask:
    name = "t"

    def __init__(self):
        self.task_exception_details = {}


def decide_real(attempts, max_attempts, update):
    """-> ('retry', next_attempts, stage_stored_in_same_call, merged) | ('terminal', status_name, marked)"""
    from stabilize.errors import TransientError
    from stabilize.handlers.run_task.error import handle_exception
    from stabilize.queue.messages import RunTask
    msg = RunTask(execution_type="PIPELINE", execution_id="e", stage_id="s", task_id="t", task_type="x")
    msg.message_id = "7"
    msg.attempts = attempts
    msg.max_attempts = max_attempts
    rec, repo = _Rec(), _FakeRepo()
    exc = TransientError("scripted", context_update=update) if update else TransientError("scripted")
    handle_exception(_FakeStage(), _FakeTask(), None, msg, exc, repo, rec,
                     lambda st, tm, m, n: timedelta(seconds=1), lambda fn, what: fn())
    if len(rec.calls) != 1:
        return ("odd", len(rec.calls))
    kind, stage, source, pushes = rec.calls[0]
    if len(pushes) != 1:
        return ("odd-push", len(pushes))
    m = pushes[0][0]
    if type(m).__name__ == "RunTask":
        merged = stage is not None and all(stage.context.get(k) == v for k, v in (update or {}).items()) and stage.context.get("k0") == 1
        return ("retry", int(m.attempts), stage is not None, merged, source is not None)
    if type(m).__name__ == "CompleteTask":
        return ("terminal", m.status.name, source is not None)
    return ("odd-msg", type(m).__name__)


def decision_cases(ctx):
    import logging
    logging.disable(logging.CRITICAL)
    qmax, mmax = _consts()
    cases, descr, viol = [], [], []
    atts = list(range(0, mmax + 4)) + [None]
    maxes = [1, 2, 3, mmax - 1, mmax, mmax + 1, 25, None] if ctx.tier == "quick" else list(range(1, mmax + 6)) + [25, None]
    for a in atts:
        for m in maxes:
            for upd in (None, {"k1": 5}):
                r = decide_real(a, m, upd)
                a_eff = 0 if a is None else a
                if r[0] == "retry":
                    cases.append(f"({cq_Z(a_eff)}, {cq_opt(m, cq_Z)}, true, {cq_Z(r[1])})")
                    # progress: the context_update is merged and stored in the same call as the push; never a processed mark
                    if upd and not (r[2] and r[3]):
                        viol.append(Violation(
                            what=f"handle_exception(attempts={a}, max={m}) pushed the retry without storing the merged context_update in the same transaction",
                            signature="progress-lost:decision", replay={"kind": "decision", "attempts": a, "max_attempts": m, "update": upd}))
                    if r[4]:
                        viol.append(Violation(
                            what=f"handle_exception(attempts={a}, max={m}) marks the message processed on the retry path",
                            signature="retry-marks-source", replay={"kind": "decision", "attempts": a, "max_attempts": m, "update": upd}))
                elif r[0] == "terminal":
                    cases.append(f"({cq_Z(a_eff)}, {cq_opt(m, cq_Z)}, false, {cq_Z(0)})")
                    if r[1] != "TERMINAL" or not r[2]:
                        viol.append(Violation(
                            what=f"handle_exception(attempts={a}, max={m}) gave up with CompleteTask({r[1]}), processed mark={r[2]}",
                            signature="terminal-path-odd", replay={"kind": "decision", "attempts": a, "max_attempts": m, "update": upd}))
                else:
                    cases.append(f"({cq_Z(a_eff)}, {cq_opt(m, cq_Z)}, false, {cq_Z(-1)})")
                descr.append({"attempts": a, "max_attempts": m, "update": upd, "decision": list(r)})
    return cases, descr, viol


DEC_REQ = "From Stab.gen Require Import Gen_Guards Gen_Retry."
DEC_TYPE = "Z * option Z * bool * Z"
DEC_CHECK = ("fun c => match c with (a, m, retried, next) => "
             "let b := match m with Some x => x | None => default_max_attempts end in "
             "Bool.eqb (retry_guard a b) retried && (if retried then Z.eqb (retry_next_attempt a) next else Z.eqb next 0) end")


# ------------------------------------------------------------------------------------------------
# C. engine runs
# ------------------------------------------------------------------------------------------------

def task_script(k: int, variant: str) -> list[str]:
    """k transient failures (or RUNNING polls) then success; k = FOREVER: never succeeds"""
    n = 3 if k == FOREVER else k
    if variant == "plain":
        steps = ["trans"] * n
    elif variant == "ctx":
        steps = [f"trans:k1={j + 1}" for j in range(n)]
    elif variant == "run":
        steps = [f"run:k2={j + 1}" for j in range(n)]
    elif variant == "mixed":
        steps = [(f"trans:k1={j + 1}" if j % 2 == 0 else f"run:k2={j + 1}") for j in range(n)]
    else:
        raise ValueError(variant)
    if k == FOREVER:
        return steps        # the last step repeats for ever
    return steps + ["ok:k3=1"]


def make_spec(k, variant, ntasks, pos, surround, alias=False):
    tasks = [["ok"] for _ in range(ntasks)]
    tasks[pos] = task_script(k, variant)
    st = {"ref": "F", "reqs": [], "tasks": tasks}
    if alias:
        st["alias"] = True      # the tasks are referenced through a registry alias
    stages = [st]
    if surround:
        stages = [{"ref": "A", "reqs": [], "tasks": [["ok:k4=4"]]}, dict(st, reqs=["A"]), {"ref": "Z", "reqs": ["F"], "tasks": [["ok"]]}]
    return {"stages": stages}


def engine_cases(ctx) -> list[dict]:
    qmax, mmax = _consts()
    rng = ctx.rng
    thorough = ctx.tier == "thorough"
    limit = mmax
    ks = list(range(0, limit + 4)) + [FOREVER] if thorough else [0, 1, 2, 5, limit - 2, limit - 1, limit, limit + 1, limit + 3, FOREVER]
    positions = [(1, 0), (2, 0), (2, 1), (3, 0), (3, 1), (3, 2)] if thorough else [(1, 0), (2, 1), (3, 1), (3, 2), (2, 0)]
    cases = []

    def add(**kw):
        kw.setdefault("seed", rng.randrange(1 << 30))
        cases.append(kw)

    for k in ks:
        for variant in ("plain", "ctx", "run", "mixed"):
            if not thorough and variant == "mixed" and k not in (2, 5, limit + 1):
                continue
            for (nt, pos) in positions:
                if not thorough and (nt, pos) != (1, 0) and (k + nt + pos) % 3 != 0 and k != FOREVER:
                    continue
                surround = (nt + pos + (0 if k == FOREVER else k)) % 2 == 1
                alias = (k + nt + pos + len(variant)) % 3 == 0
                spec = make_spec(k, variant, nt, pos, surround, alias=alias)
                steps = 70 if k == FOREVER else 60 + 3 * k
                meta = {"k": k, "variant": variant, "ntasks": nt, "pos": pos, "surround": surround, "alias": alias}
                add(kind="policy", policy="fifo", spec=spec, name=f"trans_{variant}", max_steps=steps, c14=meta)
                for _ in range(2 if thorough else 1):
                    add(kind="policy", policy="random", spec=spec, name=f"trans_{variant}", max_steps=steps, c14=meta)
                if thorough or k in (1, limit + 1):
                    add(kind="policy", policy="redeliver", spec=spec, name=f"trans_{variant}", max_steps=steps, c14=meta)
    # a crash after every commit of the FIFO run of a task that saves progress with its transient failures, then restart,
    # recovery sweep and drain: a retry that was scheduled must find the progress saved with it (monitor M3c)
    for (k, variant, nt, pos, surround) in ([(2, "ctx", 1, 0, False), (3, "mixed", 2, 1, True)] if not thorough else
                                            [(2, "ctx", 1, 0, False), (3, "mixed", 2, 1, True), (4, "ctx", 3, 1, True), (2, "run", 2, 0, False)]):
        spec = make_spec(k, variant, nt, pos, surround)
        meta = {"k": k, "variant": variant, "ntasks": nt, "pos": pos, "surround": surround, "crash": True}
        for at in range(0, 14 + 5 * k + 4 * nt + (8 if surround else 0)):
            add(kind="crash", at=at, spec=spec, name=f"trans_{variant}_crash", drain="fifo", max_steps=60 + 3 * k, c14=meta)
            if thorough:
                add(kind="crash", at=at, spec=spec, name=f"trans_{variant}_crash", drain="random", max_steps=60 + 3 * k, c14=meta)
    # a recovery sweep while the retry / the next poll is waiting for its backoff: the parked RunTask IS the task's pending
    # message, so the sweep must not queue a second, immediate one (no backoff, a fresh attempt counter, an extra execution)
    for (k, variant, nt, pos, surround) in [(2, "ctx", 1, 0, False), (2, "run", 2, 1, True), (3, "plain", 1, 0, True)]:
        spec = make_spec(k, variant, nt, pos, surround)
        meta = {"k": k, "variant": variant, "ntasks": nt, "pos": pos, "surround": surround, "sweeps": True}
        for at in range(0, 22 if thorough else 16):
            add(kind="inject", what="recover", at=at, times=1 + at % 2, spec=spec, name=f"trans_{variant}_sweep", policy="fifo",
                max_steps=60 + 3 * k, c14=meta)
    # redelivery of the SAME RunTask row: B, StartWorkflow(1), StartStage(2), StartTask(3) -> RunTask is row 4
    warm = [["B"], ["D", 1, True], ["D", 2, True], ["D", 3, True]]
    for variant in ("plain", "ctx", "run"):
        spec = make_spec(FOREVER, variant, 1, 0, False)
        meta = {"k": FOREVER, "variant": variant, "ntasks": 1, "pos": 0, "surround": False, "same_row": True}
        n = qmax + 4
        add(kind="script", spec=spec, name="same_row_crash", actions=warm + [["X", 4, 1]] * n, c14=meta)
        add(kind="script", spec=spec, name="same_row_noack", actions=warm + [["D", 4, False]] * n, c14=meta)
        add(kind="script", spec=spec, name="same_row_cut_mid", actions=warm + [["X", 4, 2], ["X", 4, 1], ["X", 4, 3], ["D", 4, False]] * 4, c14=meta)
        if thorough:
            for c in (0, 1, 2, 3, 4):
                add(kind="script", spec=spec, name="same_row_cut", actions=warm + [["X", 4, c]] * n + [["D", 4, True]], c14=meta)
    return cases


def _replay(out, extra=None):
    r = {"kind": "engine", "spec": out["case"]["spec"], "actions": out["actions"],
         "case": {k: v for k, v in out["case"].items() if k not in ("spec", "actions")}}
    if extra:
        r.update(extra)
    return r


def _scripted_updates(steps, n):
    """context keys the first n executions of the script have saved (in order; later values win)"""
    saved = {}
    for j in range(n):
        step = steps[min(j, len(steps) - 1)]
        kind, _, arg = step.partition(":")
        if kind in ("trans", "run") and arg:
            for p in arg.split(","):
                kk, _, v = p.partition("=")
                saved[kk] = int(v)
    return saved


def monitor(out) -> list[Violation]:
    qmax, mmax = _consts()
    vs: list[Violation] = []
    case = out["case"]
    meta = case.get("c14") or {}
    spec = case["spec"]
    fref = "F"
    fstage = [s for s in spec["stages"] if s["ref"] == fref]
    if not fstage:
        return vs
    fstage = fstage[0]
    pos = meta.get("pos", 0)
    steps = fstage["tasks"][pos]
    k = meta.get("k", 0)
    same_row = meta.get("same_row", False)
    ledger = [e for e in out["ledger"] if e["ref"] == fref and e["task"] == pos]
    n_exec = len(ledger)
    crashes = sum(1 for a, r in zip(out["actions"], out["results"]) if a[0] == "X" and r.get("crashed"))
    final_stage = {s["ref"]: s for s in out["final"]["stages"]}[fref]
    tstat = final_stage["tasks"][pos][0]
    failing_polls = sum(1 for e in ledger if e["step"].split(":")[0] == "trans")

    # -- M1: the number of executions caused by TransientError is bounded by the documented maximum
    if not same_row and failing_polls > mmax:
        vs.append(Violation(
            what=f"a task that keeps raising TransientError was executed {failing_polls} times after transient failures "
                 f"(documented maximum {mmax} attempts); task is {tstat}, workflow {out['final']['wf']}: the carried attempt count "
                 f"is dropped by the queue round trip, every retry is delivered with attempts = 1",
            signature=KNOWN_SIG, replay=_replay(out, {"executions": n_exec, "limit": mmax})))
    # -- M1b: one row is never executed more often than the queue's max_attempts
    if same_row:
        per_row: dict = {}
        for rid, typ in out["handled"]:
            if typ == "RunTask":
                per_row[rid] = per_row.get(rid, 0) + 1
        worst = max(per_row.values(), default=0)
        if worst > qmax:
            vs.append(Violation(
                what=f"one RunTask row was handled {worst} times (> queue max_attempts {qmax}): the attempts filter of poll_one no longer hides it",
                signature="same-row-unbounded", replay=_replay(out, {"handled": worst})))
    # -- M2: a task that fails fewer times than the budget allows is retried until it succeeds
    budget_execs = mmax - 1          # retry_guard with a first delivery that sees 1
    variant = meta.get("variant", "plain")
    n_trans = sum(1 for j in range(max(k, 0)) if steps[j].split(":")[0] == "trans")
    if not same_row and k != FOREVER and out["quiescent"] and crashes == 0:
        if True:
            # on the current tree every k succeeds (that is the defect); a run that gives up EARLIER than the budget is a
            # different violation.  RUNNING polls are not failures and never use up the budget.
            if n_trans + 1 <= budget_execs and (tstat != "SUCCEEDED" or n_exec != k + 1):
                vs.append(Violation(
                    what=f"task scripted to fail transiently {k} times then succeed was executed {n_exec} times and ended {tstat} "
                         f"(workflow {out['final']['wf']}); the retry budget allows {budget_execs} executions",
                    signature=("gave-up-early" if n_exec < k + 1 else "extra-execution") + f":{tstat}",
                    replay=_replay(out, {"executions": n_exec, "expected": k + 1})))
        if out["final"]["wf"] not in ("SUCCEEDED", "TERMINAL", "CANCELED", "STOPPED", "FAILED_CONTINUE"):
            vs.append(Violation(
                what=f"queue drained but the workflow is {out['final']['wf']} (stage {final_stage['status']}, task {tstat}) after {n_exec} executions",
                signature=f"stuck-after-retries:{final_stage['status']}[{tstat}]", replay=_replay(out)))
    # -- M3: every attempt sees the context saved by the previous attempts (crash-free runs: a crashed attempt saves nothing)
    for e in (ledger if crashes == 0 else []):
        want = _scripted_updates(steps, e["n"])
        got = {kk: v for kk, v in e["ctx"].items() if kk in want}
        if got != want:
            vs.append(Violation(
                what=f"execution #{e['n']} of the task ran with context {got}, but the previous attempts had saved {want} "
                     f"(context_update of a TransientError / context of a RUNNING result)",
                signature="progress-lost", replay=_replay(out, {"ledger_entry": e, "expected_ctx": want})))
            break
    # -- M3c (any run, crashes included): an execution delivered through a queue row that an EARLIER execution of the same
    #    task created while handling its transient failure / RUNNING poll (the scheduled retry) sees the progress that
    #    execution attached: the retry message and the saved progress are one commit, so the one never exists without the other
    lm, qm = out.get("ledger_marks") or [], out.get("queue_marks") or []
    if lm and qm and len(lm) == len(out["actions"]) == len(qm):
        def action_of(li):
            return next((a for a, m in enumerate(lm) if m > li), None)
        full = out["ledger"]
        for li, e in enumerate(full):
            if e["ref"] != fref or e["task"] != pos:
                continue
            a_e = action_of(li)
            if a_e is None or out["actions"][a_e][0] not in ("D", "X"):
                continue
            rid = out["actions"][a_e][1]
            born = next((a for a, m in enumerate(qm) if m >= rid), None)      # the action that allocated this row id
            if born is None or born >= a_e:
                continue
            lo = lm[born - 1] if born > 0 else 0
            makers = [m for m in full[lo:lm[born]] if m["ref"] == fref and m["task"] == pos]
            for mk in makers:
                kind, _, arg = mk["step"].partition(":")
                if kind not in ("trans", "run") or not arg:
                    continue
                want = {kk: int(v) for kk, _, v in (p.partition("=") for p in arg.split(","))}
                lost = {kk: v for kk, v in want.items() if not (isinstance(e["ctx"].get(kk), int) and e["ctx"][kk] >= v)}
                if lost:
                    vs.append(Violation(
                        what=f"execution #{e['n']} of the task was delivered through queue row {rid}, the retry scheduled by execution "
                             f"#{mk['n']} (which attached {want}), but ran with context {({kk: e['ctx'].get(kk) for kk in want})}: the retry message "
                             f"became durable without the progress saved with it ({crashes} crash(es) in this run)",
                        signature="progress-lost:retry-without-progress",
                        replay=_replay(out, {"ledger_entry": e, "maker": mk, "row": rid})))
                    break
            if vs and vs[-1].signature == "progress-lost:retry-without-progress":
                break
    # -- M4: the other tasks of the stage run once (a retry of one task never re-runs its neighbours)
    if crashes == 0:
        cnt: dict = {}
        for e in out["ledger"]:
            cnt[(e["ref"], e["task"])] = cnt.get((e["ref"], e["task"]), 0) + 1
        for (ref, t), n in cnt.items():
            if (ref, t) != (fref, pos) and n > 1:
                vs.append(Violation(what=f"task {ref}/{t} (not the failing one) was executed {n} times",
                                    signature="neighbour-reexecuted", replay=_replay(out)))
                break
        # tasks after the failing one must not start before it succeeded
        first_ok = next((e["commit_no"] for e in ledger if e["step"].split(":")[0] == "ok"), None)
        for e in out["ledger"]:
            if e["ref"] == fref and e["task"] > pos and (first_ok is None or e["commit_no"] < first_ok):
                vs.append(Violation(what=f"task {fref}/{e['task']} ran before the retried task {pos} had succeeded",
                                    signature="ran-past-failing-task", replay=_replay(out)))
                break
    return vs


def run_engine(ctx, res: RunResult, cases: list[dict]) -> list[dict]:
    from harness import engine_corr
    t0 = time.time()
    outs = engine_corr.run_batch(cases)
    dist = {"kinds": {}, "k": {}, "variant": {}, "position": {}, "final_wf": {}, "actions_total": 0, "commits_compared": 0,
            "task_executions": 0, "max_executions_of_one_task": 0}
    ndis = 0
    distinct = set()
    for o in outs:
        c = o["case"]
        meta = c.get("c14", {})
        key = c["kind"] + ":" + str(c.get("policy") or c.get("name"))
        dist["kinds"][key] = dist["kinds"].get(key, 0) + 1
        kk = "forever" if meta.get("k") == FOREVER else str(meta.get("k"))
        dist["k"][kk] = dist["k"].get(kk, 0) + 1
        dist["variant"][meta.get("variant")] = dist["variant"].get(meta.get("variant"), 0) + 1
        pk = f"{meta.get('pos')}/{meta.get('ntasks')}" + ("+surround" if meta.get("surround") else "")
        dist["position"][pk] = dist["position"].get(pk, 0) + 1
        dist["final_wf"][o["final"]["wf"]] = dist["final_wf"].get(o["final"]["wf"], 0) + 1
        dist["actions_total"] += len(o["actions"])
        dist["commits_compared"] += sum(len(t) for t in o["traces"])
        dist["task_executions"] += len(o["ledger"])
        per = {}
        for e in o["ledger"]:
            per[(e["ref"], e["task"])] = per.get((e["ref"], e["task"]), 0) + 1
        dist["max_executions_of_one_task"] = max([dist["max_executions_of_one_task"]] + list(per.values()))
        distinct.add(json.dumps(o["actions"]) + json.dumps(c["spec"], sort_keys=True))
        d = o.get("disagreement")
        if d:
            ndis += 1
            if len(res.disagreements) < 10:
                res.disagreements.append({"engine_case": {kx: v for kx, v in c.items() if kx not in ("spec", "actions")}, "spec": c["spec"],
                                          "first_difference": {kx: (v[:400] if isinstance(v, str) else v) for kx, v in d.items()},
                                          "actions": o["actions"][: (d.get("action_index") or 0) + 1]})
        res.violations.extend(monitor(o))
    res.evaluations += len(outs)
    res.distinct_nontrivial += len(distinct)
    res.traces_validated += len(outs)
    res.distribution["engine"] = dist
    res.extra["engine_wall_s"] = round(time.time() - t0, 1)
    res.extra["engine_disagreements"] = ndis
    if outs:
        o = max(outs, key=lambda o: len(o["ledger"]))
        res.samples.append({"name": o["case"].get("name"), "c14": o["case"].get("c14"), "spec": o["case"]["spec"],
                            "actions": o["actions"][:12], "executions": len(o["ledger"]),
                            "final": {"wf": o["final"]["wf"], "stages": {s["ref"]: s["status"] for s in o["final"]["stages"]}}})
    return outs


def run(ctx) -> RunResult:
    res = RunResult(rule=(
        "A: (push path, carried attempts a, k-th redelivery of the row) -> attempts / max_attempts the polled message shows, "
        "real SqliteQueue vs Retry.redeliver in Coq; B: (message.attempts, message.max_attempts, with/without "
        "context_update) -> decision of the real handle_exception vs retry_guard / retry_next_attempt in Coq; "
        "C: engine runs (spec, online-chosen action list), real engine vs extracted Engine model after every write commit; "
        "distinct = distinct cases; non-trivial = all of A/B, and engine runs with >= 1 task execution"))
    # A
    rt_cases, rt_descr = round_trip_cases(ctx)
    fail, err = lib.coq_failing_indices(RT_REQ, RT_CHECK, RT_TYPE, rt_cases, "c14_rt")
    if err:
        res.disagreements.append({"what": "round-trip model evaluation failed", "detail": err[:800]})
    for i in fail[:10]:
        res.disagreements.append({"what": "queue round trip differs from Retry.redeliver", "case": rt_descr[i]})
    # B
    dec_cases, dec_descr, dec_viol = decision_cases(ctx)
    fail2, err2 = lib.coq_failing_indices(DEC_REQ, DEC_CHECK, DEC_TYPE, dec_cases, "c14_dec")
    if err2:
        res.disagreements.append({"what": "decision model evaluation failed", "detail": err2[:800]})
    for i in fail2[:10]:
        res.disagreements.append({"what": "handle_exception decision differs from retry_guard / retry_next_attempt", "case": dec_descr[i]})
    res.violations.extend(dec_viol)
    res.evaluations += len(rt_cases) + len(dec_cases)
    res.distinct_nontrivial += len(set(rt_cases)) + len(set(dec_cases))
    res.traces_validated += len(rt_cases) + len(dec_cases)
    res.distribution["round_trip"] = {"cases": len(rt_cases), "hidden_by_filter": sum(1 for d in rt_descr if d["seen"] is None),
                                      "via": {v: sum(1 for d in rt_descr if d["via"] == v) for v in ("queue", "txn")}}
    res.distribution["decision"] = {"cases": len(dec_cases), "retry": sum(1 for d in dec_descr if d["decision"][0] == "retry"),
                                    "terminal": sum(1 for d in dec_descr if d["decision"][0] == "terminal")}
    res.samples += [rt_descr[len(rt_descr) // 3], dec_descr[len(dec_descr) // 2]]
    # the round trip itself, as a direct statement on the implementation (the defect's mechanism; reported under the
    # known signature because it IS the known finding, seen without running the engine)
    grew = [d for d in rt_descr if d["redelivery"] == 0 and d["seen"] is not None and d["carried_attempts"] >= 1
            and d["seen"][0] > d["carried_attempts"]]
    if not grew:
        d0 = [d for d in rt_descr if d["redelivery"] == 0 and d["carried_attempts"] >= 2][:1]
        res.notes.append("round trip: a retry message carrying attempts=a is delivered showing attempts=1 for every a "
                         "(example %s): the mechanism of the known finding %s" % (d0, KNOWN_SIG))
    # C
    try:
        run_engine(ctx, res, engine_cases(ctx))
    except ImportError as e:
        res.notes.append(f"engine part not available: {e!r}")
    return res


def search(ctx, broken):
    """something no longer checks and no failing input is at hand: run the thorough plan with fresh seeds"""
    vs: list[Violation] = []
    sub = lib.Ctx(pid=PID, tier="thorough", seed=ctx.seed + 1, rng=random.Random(ctx.seed * 7919 + 14))
    r = RunResult()
    try:
        _, _, dv = decision_cases(sub)
        vs += dv
        run_engine(sub, r, engine_cases(sub))
        vs += r.violations
    except Exception as e:  # pragma: no cover
        vs.append(Violation(what=f"search crashed: {e!r}", signature="search-crashed", replay={}))
    return vs


def replay(obj) -> bool:
    """True = the property holds on this replay"""
    r = obj["replay"]
    sig = obj.get("signature")
    if r.get("kind") == "decision":
        lib.ensure_repo_on_path()
        qmax, mmax = _consts()
        got = decide_real(r["attempts"], r["max_attempts"], r.get("update"))
        if sig == "progress-lost:decision":
            return not (got[0] == "retry" and not (got[2] and got[3]))
        if sig == "retry-marks-source":
            return not (got[0] == "retry" and got[4])
        return not (got[0] == "terminal" and (got[1] != "TERMINAL" or not got[2]))
    from harness import engine_corr
    case = dict(r.get("case", {}))
    case.update(spec=r["spec"], kind="script", actions=r["actions"])
    case.setdefault("seed", 0)
    out = engine_corr.run_batch([case], nproc=1)[0]
    vs = monitor(out)
    return not any(v.signature == sig for v in vs) and not (sig is None and vs)
