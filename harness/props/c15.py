"""C15 — jump loops are bounded and always terminate; a backward jump re-arms exactly the target and the stages that
depend only on it; a forward jump marks the bypassed stages skipped and never runs them.

Theorems: coq/props/C15.v over coq/model/Engine.v (handle_jump, closed_downstream, all_dependents) and the names of
coq/model/JumpM.v.

Correspondence, on every invocation:
  1. traversal differential: random graphs <= 8 stages (all digraphs <= 4 stages in the thorough tier) as REAL Workflow
     objects -> real get_resettable_downstream_stages / get_skippable_downstream_stages / get_downstream_stages /
     get_skipped_stages, against Engine.closed_downstream / all_dependents / JumpM.skip_candidates evaluated inside Coq.
     Streams: valid DAGs in topological row order (what the Engine handlers assume), the same DAGs with shuffled row order,
     and malformed graphs (cycles, self requisites, unknown requisite refs; built with the plain Workflow constructor
     because Workflow.create rejects them).  The Coq theorems on the traversals hold for ANY graph, so all streams are
     compared; what the rest of the Engine model does not cover is a WORKFLOW RUN whose rows are not in topological order.
  2. engine runs (harness/engine_corr: real engine vs. the extracted Engine model after every write commit):
     loop shapes (self loop, 2-4-stage cycle, jump into the middle, loop with a side branch and a fan-in boundary, forward
     jump over a diamond, forward jump with a side branch) x requested iterations 0 .. limit+2 and "for ever" x
     _max_jumps in {0,1,2,3,10,None} on the workflow and/or the source stage x FIFO / LIFO / shuffled delivery.

Monitors on the real run: accepted jumps <= effective maximum; the request after the budget is spent fails the source
stage TERMINAL and the workflow ends TERMINAL; a loop asked for k <= max iterations gets exactly k; the set of stages
whose status a JumpToStage delivery changes is exactly (independent Python re-statement of the property) target +
closure(target) (+ source if backward) -> NOT_STARTED, NOT_STARTED members of closure(source) - chain(target) -> SKIPPED,
source -> SUCCEEDED if forward, nothing else; every task runs at most once between two re-arms of its stage and (FIFO)
the target runs accepted+1 times; skipped stages never execute; the workflow ends (known finding
"stuck:RUNNING[REDIRECT]" under shuffled delivery, shared with C02/C05).
"""
from __future__ import annotations

import itertools
import json
import random
import time

from harness import lib
from harness.lib import RunResult, Violation, cq_list, cq_nat

PID = "C15"
COQ_TARGETS = ["props/C15.vo", "model/EngineInv.vo"]   # EngineInv: needed by the extracted oracle; keeps it in step with coq/gen
THEOREMS = ["Stab.props.C15." + t for t in (
    "C15_budget_accept", "C15_budget_count_written", "C15_budget_exhausted", "C15_budget_counter",
    "C15_budget_step", "C15_budget_run_partial", "C15_accepted_jump_raises", "C15_exhausted_jump_fails_source",
    "C15_resettable_spec", "C15_dependents_spec", "C15_closed_in_dependents",
    "C15_rearm_exact", "C15_rearm_exact_top", "C15_rearm_children", "C15_rearm_parents", "C15_child_reset_once",
    "C15_skipped_members", "C15_canceled_noop")]
TRUSTED_BASE = [
    "SQLite: a write transaction is atomic; AUTOINCREMENT ids increase",
    "task behaviour is a function of (stage, task, n-th execution) (scripted oracle mirrored by a scripted Python Task)",
    "OCaml extraction of coq/model/Engine.v (ExtrOcamlBasic only) + hand-written I/O driver ocaml/oracle.ml",
    "SQLite AFTER UPDATE / AFTER INSERT triggers report exactly the durable status changes and pushes (monitors)",
]
ASSUMPTIONS = [
    "engine runs: stage rows are in a topological order (requisites have smaller indices); the traversal theorems need no such assumption",
    "C15_budget_run_partial: no jump INTO the stage from another jumping stage (single-source loops); several jumping stages are covered by the step theorem only",
    "one handler runs at a time (sequential engine model); synthetic before/after stages of re-armed stages are not in these runs",
    "termination of the whole run (queue drains) is a monitor, not a theorem: it is false under shuffled delivery (open finding stuck:RUNNING[REDIRECT])",
]

STUCK_SIG = "stuck:RUNNING[REDIRECT]"
STALE_SIG = "stuck:stale-task-message-after-rearm"
DUP_SIG = "stuck:duplicate-task-run-after-rearm"
FOREVER = -1
COMPLETE = {"SUCCEEDED", "FAILED_CONTINUE", "TERMINAL", "CANCELED", "STOPPED", "SKIPPED"}


# ------------------------------------------------------------------------------------------------
# independent re-statement of the property's sets (NOT the repo's code, NOT the Coq model)
# ------------------------------------------------------------------------------------------------

def spec_reqs(spec) -> dict:
    return {s["ref"]: set(s.get("reqs", [])) for s in spec["stages"]}


def spec_kids(spec) -> dict:
    """parent ref -> refs of its synthetic children (before / after / on-failure stages)"""
    return {s["ref"]: [c["ref"] for kind in ("before", "after", "on_failure") for c in s.get(kind, [])] for s in spec["stages"]}


def closure(reqs: dict, seed: str) -> set:
    """least set containing every stage all of whose (non-empty) requisites lie in {seed} + set"""
    scope = {seed}
    changed = True
    while changed:
        changed = False
        for ref, rq in reqs.items():
            if ref not in scope and rq and rq <= scope:
                scope.add(ref)
                changed = True
    return scope - {seed}


def dependents(reqs: dict, seed: str) -> set:
    out: set = set()
    frontier = {seed}
    while frontier:
        nxt = {ref for ref, rq in reqs.items() if ref not in out and rq & frontier}
        out |= nxt
        frontier = nxt
    return out


# ------------------------------------------------------------------------------------------------
# 1. traversal differential
# ------------------------------------------------------------------------------------------------

def gen_graph(rng: random.Random, kind: str, n: int | None = None):
    """-> (refs in row order, reqs: ref -> list of refs (may contain unknown refs))"""
    n = n or rng.randint(1, 8)
    refs = [f"r{i}" for i in range(n)]
    reqs = {}
    dens = rng.choice([0.15, 0.3, 0.5, 0.8])
    for i, r in enumerate(refs):
        cand = refs[:i]
        reqs[r] = [c for c in cand if rng.random() < dens]
    if kind == "topo":
        return refs, reqs
    if kind == "shuffled":
        order = refs[:]
        rng.shuffle(order)
        return order, reqs
    # malformed: back edges / self requisites / unknown refs
    for _ in range(rng.randint(1, 3)):
        a = rng.choice(refs)
        what = rng.choice(["back", "self", "unknown"])
        if what == "back":
            reqs[a] = list(set(reqs[a]) | {rng.choice(refs)})
        elif what == "self":
            reqs[a] = list(set(reqs[a]) | {a})
        else:
            reqs[a] = list(set(reqs[a]) | {f"x{rng.randint(0, 2)}"})
    order = refs[:]
    if rng.random() < 0.5:
        rng.shuffle(order)
    return order, reqs


NAMED_GRAPHS = [
    ("single", ["a"], {"a": []}),
    ("chain", ["a", "b", "c"], {"a": [], "b": ["a"], "c": ["b"]}),
    ("diamond", ["a", "b", "c", "d"], {"a": [], "b": ["a"], "c": ["a"], "d": ["b", "c"]}),
    ("fan_in_boundary", ["a", "b", "x", "j", "k"], {"a": [], "b": ["a"], "x": [], "j": ["b", "x"], "k": ["j"]}),
    ("two_roots", ["a", "b", "c"], {"a": [], "b": [], "c": ["a", "b"]}),
    ("late_discovery", ["d", "c", "b", "a"], {"a": [], "b": ["a"], "c": ["b"], "d": ["c"]}),   # needs several scans
    ("self_req", ["a", "b"], {"a": ["a"], "b": ["a"]}),
    ("two_cycle", ["a", "b", "c"], {"a": ["b"], "b": ["a"], "c": ["a"]}),
    ("unknown_req", ["a", "b"], {"a": [], "b": ["a", "zz"]}),
]


def all_digraphs(n: int):
    refs = [f"r{i}" for i in range(n)]
    others = [[r for r in refs if r != x] for x in refs]
    subsets = [[list(c) for k in range(len(o) + 1) for c in itertools.combinations(o, k)] for o in others]
    for combo in itertools.product(*subsets):
        yield refs, {refs[i]: combo[i] for i in range(n)}


def real_traversals(order, reqs, seeds, pairs):
    """call the real functions on a real Workflow; -> per seed: (resettable, skippable, downstream(sorted)), per pair: skipped"""
    from stabilize import StageExecution, Workflow
    from stabilize.handlers.jump_to_stage import traversal as T
    stages = [StageExecution(ref_id=r, type="verif", name=r, context={}, requisite_stage_ref_ids=set(reqs[r]), tasks=[])
              for r in order]
    try:
        wf = Workflow.create(application="verif", name="verif", stages=stages)
        validated = True
    except Exception:
        wf = Workflow(application="verif", name="verif", stages=stages)
        validated = False
    per_seed = {}
    for sd in seeds:
        per_seed[sd] = ([s.ref_id for s in T.get_resettable_downstream_stages(wf, sd)],
                        [s.ref_id for s in T.get_skippable_downstream_stages(wf, sd)],
                        sorted({s.ref_id for s in T.get_downstream_stages(wf, sd)}, key=order.index),
                        len(T.get_downstream_stages(wf, sd)))
    per_pair = {}
    by_ref = {s.ref_id: s for s in wf.stages}
    for (a, b) in pairs:
        per_pair[(a, b)] = [s.ref_id for s in T.get_skipped_stages(wf, by_ref[a], by_ref[b])]
    return per_seed, per_pair, validated


def traversal_cases(ctx):
    lib.ensure_repo_on_path()
    rng = ctx.rng
    thorough = ctx.tier == "thorough"
    graphs = [(nm, o, r) for nm, o, r in NAMED_GRAPHS]
    for kind, cnt in (("topo", 400 if thorough else 120), ("shuffled", 250 if thorough else 60), ("malformed", 250 if thorough else 60)):
        for _ in range(cnt):
            o, r = gen_graph(rng, kind)
            graphs.append((kind, o, r))
    if thorough:
        for n in (1, 2, 3, 4):
            for o, r in all_digraphs(n):
                graphs.append((f"all{n}", o, r))
    else:
        for n in (1, 2, 3):
            for o, r in all_digraphs(n):
                graphs.append((f"all{n}", o, r))
    cases, descr, viol = [], [], []
    stats = {"graphs": len(graphs), "by_kind": {}, "validated_by_Workflow.create": 0, "nonempty_closure": 0,
             "closure_smaller_than_dependents": 0, "nonempty_skipped": 0, "sizes": {}}
    for kind, order, reqs in graphs:
        n = len(order)
        idx = {r: i for i, r in enumerate(order)}
        unknown = sorted({x for r in order for x in reqs[r] if x not in idx})
        uidx = {u: n + 1 + k for k, u in enumerate(unknown)}     # an index that is not a row

        def ix(x):
            return idx[x] if x in idx else uidx[x]
        seeds = order if (n <= 4 or kind in ("topo",) and thorough) else rng.sample(order, min(3, n))
        pairs = [(a, b) for a in seeds for b in (order if n <= 4 else rng.sample(order, min(2, n)))]
        per_seed, per_pair, validated = real_traversals(order, reqs, seeds, pairs)
        stats["by_kind"][kind] = stats["by_kind"].get(kind, 0) + 1
        stats["sizes"][n] = stats["sizes"].get(n, 0) + 1
        stats["validated_by_Workflow.create"] += 1 if validated else 0
        g = cq_list([cq_list([cq_nat(ix(x)) for x in sorted(reqs[r], key=ix)]) for r in order])
        rq = {r: set(reqs[r]) for r in order}
        for sd in seeds:
            res, skp, deps, ndeps = per_seed[sd]
            sk = [(b, per_pair[(sd, b)]) for (a, b) in pairs if a == sd]
            cases.append("(%s, %s, %s, %s, %s, %s)" % (
                g, cq_nat(idx[sd]), cq_list([cq_nat(idx[x]) for x in res]), cq_list([cq_nat(idx[x]) for x in skp]),
                cq_list([cq_nat(idx[x]) for x in deps]),
                cq_list(["(%s, %s)" % (cq_nat(idx[b]), cq_list([cq_nat(idx[x]) for x in l])) for b, l in sk])))
            descr.append({"kind": kind, "order": order, "reqs": reqs, "seed": sd, "resettable": res, "downstream": deps,
                          "skipped": {b: l for b, l in sk}})
            stats["nonempty_closure"] += 1 if res else 0
            stats["closure_smaller_than_dependents"] += 1 if len(res) < len(deps) else 0
            stats["nonempty_skipped"] += sum(1 for _, l in sk if l)
            # implementation-side monitor: the property's own definition of the sets
            want = closure(rq, sd)
            if set(res) != want or len(res) != len(set(res)) or set(skp) != want:
                viol.append(Violation(
                    what=f"get_resettable/skippable_downstream_stages({sd}) = {res}/{skp} but the stages that depend only on {sd} are {sorted(want)}",
                    signature="traversal:resettable", replay={"kind": "traversal", "order": order, "reqs": reqs, "seed": sd}))
            wd = dependents(rq, sd)
            if set(deps) != wd or ndeps != len(wd):
                viol.append(Violation(
                    what=f"get_downstream_stages({sd}) = {deps} (length {ndeps}) but the transitive dependents are {sorted(wd)}",
                    signature="traversal:downstream", replay={"kind": "traversal", "order": order, "reqs": reqs, "seed": sd}))
            for b, l in sk:
                ws = closure(rq, sd) - ({b} | dependents(rq, b))
                if l != [x for x in order if x in ws]:
                    viol.append(Violation(
                        what=f"get_skipped_stages({sd} -> {b}) = {l}, expected {[x for x in order if x in ws]}",
                        signature="traversal:skipped", replay={"kind": "traversal", "order": order, "reqs": reqs, "seed": sd, "target": b}))
    return cases, descr, viol, stats


TR_REQ = "From Stab.model Require Import Engine JumpM.\nFrom Stab.proofs Require Import EngineEx."
TR_TYPE = "list (list nat) * nat * list nat * list nat * list nat * list (nat * list nat)"
TR_CHECK = ("fun c => match c with (g, seed, res, skp, deps, sk) => "
            "let s := init_state (map (fun r => ex_stage r 1) g) None in "
            "list_eqb Nat.eqb (closed_downstream s seed) res && list_eqb Nat.eqb (closed_downstream s seed) skp && "
            "list_eqb Nat.eqb (filter (fun j => mem_nat j (all_dependents s seed)) (seqn (List.length g))) deps && "
            "Nat.eqb (List.length (all_dependents s seed)) (List.length deps) && "
            "forallb (fun p => list_eqb Nat.eqb (skip_candidates s seed (fst p)) (snd p)) sk end")


# ------------------------------------------------------------------------------------------------
# 2. engine runs
# ------------------------------------------------------------------------------------------------

def St(ref, reqs=(), tasks=(("ok",),), **kw):
    d = {"ref": ref, "reqs": list(reqs), "tasks": [list(t) for t in tasks]}
    d.update(kw)
    return d


def jump_script(target: str, k: int) -> list[str]:
    if k == FOREVER:
        return [f"jump:{target}"]
    return [f"jump:{target}"] * k + ["ok:k1=1"]


def shapes() -> dict:
    """name -> (builder(k) -> stages, source ref, target ref, backward?)"""
    return {
        "self_loop": (lambda k: [St("A", tasks=[jump_script("A", k)]), St("B", ["A"])], "A", "A", True),
        "cycle2": (lambda k: [St("A", tasks=[["ok:k2=2"]]), St("B", ["A"], tasks=[jump_script("A", k)]), St("C", ["B"])], "B", "A", True),
        "cycle3": (lambda k: [St("A"), St("B", ["A"], tasks=[["ok"], ["ok"]]), St("C", ["B"], tasks=[jump_script("A", k)]), St("D", ["C"])],
                   "C", "A", True),
        "cycle4": (lambda k: [St("A"), St("B", ["A"]), St("C", ["B"]), St("D", ["C"], tasks=[["ok"], jump_script("A", k)]), St("E", ["D"])],
                   "D", "A", True),
        "into_middle": (lambda k: [St("A"), St("B", ["A"]), St("C", ["B"], tasks=[jump_script("B", k)]), St("D", ["C"])], "C", "B", True),
        "side_fanin": (lambda k: [St("A"), St("B", ["A"]), St("C", ["B"], tasks=[jump_script("A", k)]), St("S", ["A"], tasks=[["ok:k3=3"]]),
                                  St("X"), St("J", ["C", "X"]), St("K", ["S"])], "C", "A", True),
        "forward_diamond": (lambda k: [St("A", tasks=[jump_script("E", min(k, 1) if k != FOREVER else FOREVER)]), St("B", ["A"]), St("C", ["A"]),
                                       St("D", ["B", "C"]), St("E", ["D"]), St("F", ["E"])], "A", "E", False),
        "forward_side": (lambda k: [St("A", tasks=[jump_script("D", min(k, 1) if k != FOREVER else FOREVER)]), St("B", ["A"]), St("C", ["B"]),
                                    St("D", ["C"]), St("S", ["A"]), St("J", ["S", "D"])], "A", "D", False),
        # jumps x synthetic stages (before / after children are re-armed with their parent)
        "syn_cycle": (lambda k: [St("A", tasks=[["ok:k2=2"]], before=[St("A.b0")], after=[St("A.a0")]),
                                 St("B", ["A"], tasks=[jump_script("A", k)], before=[St("B.b0")]), St("C", ["B"])], "B", "A", True),
        "syn_self": (lambda k: [St("A", tasks=[jump_script("A", k)], before=[St("A.b0"), St("A.b1", chain=True)], after=[St("A.a0")]),
                                St("B", ["A"])], "A", "A", True),
        "syn_side": (lambda k: [St("A"), St("B", ["A"], tasks=[jump_script("A", k)]),
                                St("P", ["A"], before=[St("P.b0", tasks=[["ok"], ["ok"]]), St("P.b1")], after=[St("P.a0"), St("P.a1", chain=True)]),
                                St("K", ["P"])], "B", "A", True),
        # the jumping task belongs to an after stage of the target: by the handler's rule this is a FORWARD jump (the child is
        # not downstream of its parent), the child is marked SUCCEEDED and then re-armed as a child of the target
        "syn_child_jumps": (lambda k: [St("A", after=[St("A.a0", tasks=[jump_script("A", min(k, 1) if k != FOREVER else FOREVER)])]),
                                       St("B", ["A"])], "A.a0", "A", False),
        "syn_forward_over": (lambda k: [St("A", tasks=[jump_script("D", min(k, 1) if k != FOREVER else FOREVER)]),
                                        St("B", ["A"], before=[St("B.b0")], after=[St("B.a0")]), St("C", ["B"]),
                                        St("D", ["C"], before=[St("D.b0")])], "A", "D", False),
    }


def effective_max(spec, source_ref):
    w = spec.get("wctx", {}).get("_max_jumps")
    if w is not None:
        return w
    for s in spec["stages"]:
        if s["ref"] == source_ref:
            m = s.get("ctx", {}).get("_max_jumps")
            if m is not None:
                return m
    return default_max_jumps()


_DMJ = None


def default_max_jumps() -> int:
    global _DMJ
    if _DMJ is None:
        lib.ensure_repo_on_path()
        from stabilize.handlers.jump_to_stage import handler as H
        _DMJ = int(H.DEFAULT_MAX_JUMPS)
    return _DMJ


def engine_cases(ctx) -> list[dict]:
    rng = ctx.rng
    thorough = ctx.tier == "thorough"
    dmj = default_max_jumps()
    cases = []

    def add(**kw):
        kw.setdefault("seed", rng.randrange(1 << 30))
        cases.append(kw)

    settings = [0, 1, 2, 3, dmj, None]
    for name, (build, src, tgt, backward) in shapes().items():
        for mj in settings:
            if name.startswith("syn_") and not thorough and mj not in (1, 3, None):
                continue
            emax = dmj if mj is None else mj
            ks = list(range(0, emax + 3)) + [FOREVER] if thorough else sorted({0, 1, emax, emax + 1, emax + 2} | ({2} if emax >= 2 else set())) + [FOREVER]
            if not backward:
                ks = [0, 1, FOREVER] if emax >= 1 else [0, 1]
            placements = ["workflow", "stage", "both"] if thorough else ["workflow" if (emax + len(name)) % 2 == 0 else "stage"]
            if mj is None:
                placements = ["none"]
            elif name.startswith("syn_") and thorough:
                placements = ["workflow"]       # the budget placement is covered by the plain shapes
            for k in ks:
                if not thorough and emax == dmj and k not in (0, 1, emax, emax + 1, FOREVER):
                    continue
                for pl in placements:
                    stages = build(k)
                    spec = {"stages": stages}
                    if pl in ("workflow", "both"):
                        spec["wctx"] = {"_max_jumps": mj}
                    if pl in ("stage", "both"):
                        for s in stages:
                            if s["ref"] == src:
                                s["ctx"] = {"_max_jumps": (mj if pl == "stage" else mj + 5)}   # both: the workflow value wins
                    iters = (emax + 2) if k == FOREVER else min(k, emax + 1)
                    steps = 60 + int(1.6 * (iters + 1) * (8 * len(stages) + 10))
                    meta = {"shape": name, "k": k, "max_jumps": mj, "placement": pl, "source": src, "target": tgt, "backward": backward}
                    add(kind="policy", policy="fifo", spec=spec, name=name, max_steps=steps, c15=meta)
                    for _ in range(3 if thorough else 1):
                        add(kind="policy", policy="random", spec=spec, name=name, max_steps=steps, c15=meta)
                    if thorough or k in (1, emax + 1):
                        add(kind="policy", policy="lifo", spec=spec, name=name, max_steps=steps, c15=meta)
                    if thorough and k in (1, emax + 1):
                        add(kind="policy", policy="redeliver", spec=spec, name=name, max_steps=steps, c15=meta)
    # F4: a cancel processed before a queued JumpToStage is handled: the jump must not re-arm anything
    for name in ("self_loop", "cycle2", "side_fanin"):
        build, src, tgt, backward = shapes()[name]
        spec = {"stages": build(3)}
        meta = {"shape": name, "k": 3, "max_jumps": None, "placement": "none", "source": src, "target": tgt, "backward": backward, "cancel": True}
        for at in (range(4, 30) if thorough else range(5, 26, 3)):
            for pol in (("fifo", "random", "lifo") if thorough else ("fifo", "random")):
                add(kind="inject", what="cancel", at=at, policy=pol, spec=spec, name=name + "_cancel", max_steps=200, c15=meta)
    return cases


def _replay(out, extra=None):
    r = {"kind": "engine", "spec": out["case"]["spec"], "actions": out["actions"],
         "case": {k: v for k, v in out["case"].items() if k not in ("spec", "actions")}}
    if extra:
        r.update(extra)
    return r


def stuck_diagnosis(out) -> str:
    parts = set()
    for st in out["final"]["stages"]:
        if st["status"] not in COMPLETE and st["status"] != "NOT_STARTED":
            parts.add(st["status"] + "[" + ",".join(sorted({t[0] for t in st["tasks"]})) + "]")
    if not parts:
        parts = {"nothing-started" if all(st["status"] == "NOT_STARTED" for st in out["final"]["stages"]) else "only-NOT_STARTED-left"}
    return ";".join(sorted(parts))


def monitor(out) -> list[Violation]:
    vs: list[Violation] = []
    case = out["case"]
    spec = case["spec"]
    meta = case.get("c15") or {}
    reqs = spec_reqs(spec)
    kids = spec_kids(spec)
    order = [s["ref"] for s in spec["stages"]]
    id_ref = out["id_ref"]
    marks = out["audit_marks"]
    audit = out["audit"]
    # rows pushed: queue row id -> (type, payload)
    pushed = {}
    for row in audit:
        if row["kind"] == "push":
            pushed[int(row["ent"])] = (row["new"], json.loads(row["extra"]))
    # durable status of every stage before each audit row
    status = {r: "NOT_STARTED" for r in order}
    by_action: dict[int, list] = {}
    ai = 0
    for row in audit:
        while ai < len(marks) and row["seq"] > marks[ai]:
            ai += 1
        by_action.setdefault(ai, []).append(row)
    accepted: dict[str, int] = {}
    refused: dict[str, int] = {}
    requests: dict[str, int] = {}
    rearms: dict[str, list] = {r: [] for r in order}          # audit seqs of the accepted jumps whose re-arm set holds the stage
    skipped_at: dict[str, int] = {}
    crashes = sum(1 for a, r in zip(out["actions"], out["results"]) if a[0] == "X" and r.get("crashed"))
    cancel_seq = next((row["seq"] for row in audit if row["kind"] == "canceled" and str(row["new"]) in ("1", "True", "true")), None)
    for ai, a in enumerate(out["actions"]):
        rows = by_action.get(ai, [])
        is_jump = a[0] in ("D", "X") and out["results"][ai].get("polled") == "JumpToStage"
        if is_jump and cancel_seq is not None and (marks[ai - 1] if ai > 0 else 0) >= cancel_seq:
            touched = [r for r in rows if r["kind"] in ("stage", "task", "push")]
            if touched:
                vs.append(Violation(what=f"a JumpToStage handled after the cancel was accepted still changed {[(r['kind'], r['old'], r['new']) for r in touched][:6]}",
                                    signature="jump-after-cancel", replay=_replay(out, {"action_index": ai})))
            continue
        if is_jump and rows:
            typ, payload = pushed.get(a[1], (None, {}))
            src = id_ref.get(payload.get("stage_id"))
            tgt = payload.get("target_stage_ref_id")
            pushes = [r["new"] for r in rows if r["kind"] == "push"]
            changes = {}
            for r in rows:
                if r["kind"] == "stage":
                    x = id_ref.get(r["ent"], r["ent"])
                    changes[x] = (changes[x][0] if x in changes else r["old"], r["new"])
            if src is not None:
                requests[src] = requests.get(src, 0) + 1
            if "StartStage" in pushes:
                accepted[src] = accepted.get(src, 0) + 1
                backward = src == tgt or src in dependents(reqs, tgt)
                parents = [x for x in order if x in closure(reqs, tgt) and x not in (src, tgt)] + ([src] if backward and src != tgt else []) + [tgt]
                want_ns = ({tgt} | closure(reqs, tgt) | ({src} if backward else set()))
                final_want = {x: "NOT_STARTED" for x in want_ns}
                if not backward:
                    for x in closure(reqs, src) - ({tgt} | dependents(reqs, tgt)):
                        if status.get(x) == "NOT_STARTED" and x not in final_want:
                            final_want[x] = "SKIPPED"
                    if src != tgt:
                        final_want[src] = "SUCCEEDED"
                # _synthetic_reset_mutations: the existing children of every re-armed parent are re-armed after it
                for par in parents:
                    for c in kids.get(par, []):
                        if c in status:
                            final_want[c] = "NOT_STARTED"
                for x in set(want_ns) | {c for par in parents for c in kids.get(par, [])}:
                    rearms.setdefault(x, []).append(rows[0]["seq"])   # a new iteration of x begins here
                want = {x: v for x, v in final_want.items() if status.get(x) is not None and status[x] != v}
                got = {x: new for x, (old, new) in changes.items() if new != status.get(x)}
                if got != want:
                    vs.append(Violation(
                        what=f"jump {src} -> {tgt} ({'backward' if backward else 'forward'}) changed stage statuses {changes}; "
                             f"the property wants exactly {want} (stages before: {dict(status)})",
                        signature="rearm-set:" + ("backward" if backward else "forward"),
                        replay=_replay(out, {"action_index": ai, "changed": {k: list(v) for k, v in changes.items()}, "expected": want})))
                if pushes.count("StartStage") != 1 or any(p not in ("StartStage",) for p in pushes):
                    vs.append(Violation(what=f"accepted jump {src} -> {tgt} pushed {pushes}, expected exactly one StartStage",
                                        signature="jump-pushes", replay=_replay(out, {"action_index": ai})))
            elif "CompleteStage" in pushes:
                refused[src] = refused.get(src, 0) + 1
                if set(changes) - {src} or (src in changes and changes[src][1] != "TERMINAL"):
                    vs.append(Violation(what=f"refused jump from {src} changed {changes}; only {src} -> TERMINAL is allowed",
                                        signature="refused-jump-touched-stages", replay=_replay(out, {"action_index": ai})))
        for r in rows:
            if r["kind"] == "stage":
                ref = id_ref.get(r["ent"], r["ent"])
                if ref in status or any(ref in v for v in kids.values()):
                    status[ref] = r["new"]
                    if r["new"] == "SKIPPED" and is_jump:
                        skipped_at[ref] = r["seq"]
                    if r["new"] == "NOT_STARTED" and not is_jump:
                        vs.append(Violation(what=f"stage {ref} was re-armed ({r['old']} -> NOT_STARTED) by a {out['results'][ai].get('polled')} delivery, not by a jump",
                                            signature="rearm-outside-jump", replay=_replay(out, {"action_index": ai})))
    final = {s["ref"]: s for s in out["final"]["stages"]}
    wf = out["final"]["wf"]
    # (a) the budget
    for src, n in accepted.items():
        emax = effective_max(spec, src)
        if n > emax:
            vs.append(Violation(what=f"{n} jumps from stage {src} were accepted; the effective _max_jumps is {emax}",
                                signature="jumps-over-budget", replay=_replay(out, {"accepted": n, "max": emax})))
    for src, n in requests.items():
        emax = effective_max(spec, src)
        if crashes == 0 and n > emax:
            if refused.get(src, 0) < 1 or accepted.get(src, 0) != emax:
                vs.append(Violation(what=f"stage {src} asked to jump {n} times with _max_jumps {emax}: {accepted.get(src, 0)} accepted, {refused.get(src, 0)} refused",
                                    signature="budget-count-wrong", replay=_replay(out)))
            if final[src]["status"] != "TERMINAL" or (out["quiescent"] and wf != "TERMINAL"):
                vs.append(Violation(what=f"the jump budget of stage {src} ran out but the stage is {final[src]['status']} and the workflow {wf}"
                                         + ("" if out["quiescent"] else " (queue not drained)"),
                                    signature="budget-exhausted-not-terminal", replay=_replay(out)))
    # (b) a loop asked for k <= max iterations gets exactly k (in-order delivery, drained queue)
    k = meta.get("k")
    src = meta.get("source")
    if meta.get("cancel"):
        src = None
    if src is not None and k is not None and k != FOREVER and case.get("policy") == "fifo" and out["quiescent"] and crashes == 0:
        emax = effective_max(spec, src)
        kk = k if meta.get("backward") else min(k, 1)
        if kk <= emax and (accepted.get(src, 0) != kk or wf != "SUCCEEDED"):
            vs.append(Violation(what=f"{meta.get('shape')}: {kk} jumps requested with _max_jumps {emax}: {accepted.get(src, 0)} accepted, workflow {wf}",
                                signature="loop-cut-short", replay=_replay(out)))
    # (c) once per iteration; the target runs accepted + 1 times
    import bisect
    per_iter: dict = {}
    for e in out["ledger"]:
        it = bisect.bisect_left(rearms.get(e["ref"], []), e["audit_seq"] + 1)
        key = (e["ref"], e["task"], it)
        per_iter[key] = per_iter.get(key, 0) + 1
        if e["ref"] in skipped_at and e["audit_seq"] >= skipped_at[e["ref"]]:
            vs.append(Violation(what=f"stage {e['ref']} was marked SKIPPED by a forward jump and executed a task afterwards",
                                signature="skipped-stage-executed", replay=_replay(out, {"ledger_entry": e})))
    if crashes == 0:
        push_seq = {int(r["ent"]): r["seq"] for r in audit if r["kind"] == "push"}
        lm = out["ledger_marks"]
        for (ref, t, it), n in per_iter.items():
            if n > 1:
                # was one of the executions triggered by a RunTask row pushed BEFORE the re-arm that began this iteration?
                stale = False
                for li, e in enumerate(out["ledger"]):
                    if (e["ref"], e["task"]) == (ref, t) and bisect.bisect_left(rearms.get(ref, []), e["audit_seq"] + 1) == it and it > 0:
                        ai = bisect.bisect_right(lm, li)
                        a = out["actions"][ai] if ai < len(out["actions"]) else None
                        if a and a[0] in ("D", "X") and push_seq.get(a[1], 1 << 60) < rearms[ref][it - 1]:
                            stale = True
                vs.append(Violation(
                    what=f"task {ref}/{t} was executed {n} times within one loop iteration (iteration {it} of its stage)"
                         + (": a RunTask row of the previous iteration, still queued when the jump re-armed the stage, became valid again "
                            "when the new iteration set the task RUNNING, and both RunTask rows were delivered before the first CompleteTask" if stale else ""),
                    signature="twice-per-iteration" + (":stale-RunTask" if stale else ""), replay=_replay(out)))
                break
    if src is not None and case.get("policy") == "fifo" and out["quiescent"] and crashes == 0 and meta.get("backward"):
        tgt = meta["target"]
        runs = sum(1 for e in out["ledger"] if e["ref"] == tgt and e["task"] == 0)
        if runs != accepted.get(src, 0) + 1:
            vs.append(Violation(what=f"{meta.get('shape')}: target {tgt} ran {runs} times, {accepted.get(src, 0)} jumps were accepted (expected accepted + 1)",
                                signature="iteration-count", replay=_replay(out)))
    # (d) forward: stages in the skipped set end SKIPPED and have no ledger entry at all
    for ref in skipped_at:
        if final[ref]["status"] != "SKIPPED" and not any(q > skipped_at[ref] for q in rearms.get(ref, [])):
            vs.append(Violation(what=f"stage {ref} was skipped by a forward jump but ends {final[ref]['status']}",
                                signature="skipped-not-final", replay=_replay(out)))
    # (e) the workflow ends.  A queue holding nothing but CompleteWorkflow re-queues (the 15 s wait loop of
    # CompleteWorkflowHandler, up to max_stage_wait_retries rounds) is as good as drained: nothing else will ever happen
    # (the same holds for the ContinueParentStage wait loop of a parent whose synthetic child never finishes).
    pending = [q["type"] for q in out["final"]["queue"]]
    waiting_only = bool(pending) and all(t in ("CompleteWorkflow", "ContinueParentStage") for t in pending)
    if (out["quiescent"] or waiting_only) and wf not in COMPLETE:
        unfinished = {r: (s["status"], [t[0] for t in s["tasks"]]) for r, s in final.items() if s["status"] not in COMPLETE}
        causes = []
        if any("REDIRECT" in ts for st, ts in unfinished.values() if st != "NOT_STARTED"):
            causes.append((STUCK_SIG, "a stale CompleteTask(REDIRECT) of the previous iteration flipped the re-armed task to REDIRECT"))
        stale_exec = {e["ref"] for e in out["ledger"] if e["stage_status"] == "NOT_STARTED"}
        if any(st == "RUNNING" and ts and all(t in COMPLETE for t in ts) and r in stale_exec for r, (st, ts) in unfinished.items()):
            causes.append((STALE_SIG, "a StartTask/RunTask of the previous iteration ran the task of a re-armed (NOT_STARTED) stage; when the "
                                      "stage really started its task was already complete, StartTask was ignored and the stage never completes"))
        # stages that handled a task-level message pushed BEFORE their latest re-arm AFTER that re-arm
        pseq = {int(r["ent"]): r["seq"] for r in audit if r["kind"] == "push"}
        dup = set()
        for ai2, a2 in enumerate(out["actions"]):
            if a2[0] in ("D", "X") and a2[1] in pushed and pushed[a2[1]][0] in ("StartTask", "RunTask", "CompleteTask"):
                ref2 = id_ref.get(pushed[a2[1]][1].get("stage_id"))
                before = marks[ai2 - 1] if ai2 > 0 else 0
                if any(pseq.get(a2[1], 1 << 60) < q <= before for q in rearms.get(ref2, [])):
                    dup.add(ref2)
        if any(st == "RUNNING" and ts and all(t in COMPLETE for t in ts) and r in dup for r, (st, ts) in unfinished.items()):
            causes.append((DUP_SIG, "task-level messages of the previous iteration were still queued when the jump re-armed a multi-task stage and "
                                    "became valid again once the new iteration restarted it; the duplicated StartTask / CompleteTask chain makes "
                                    "CompleteStage arrive while a task is still RUNNING (ignored) and the later copy is dropped: the stage stays RUNNING"))
        if not causes:
            causes.append(("stuck:" + stuck_diagnosis(out), "no known explanation"))
        for sig, why in causes:
            vs.append(Violation(
                what=f"the loop never ends: queue {'drained' if out['quiescent'] else 'holds only CompleteWorkflow re-queues'} but the workflow is {wf}; "
                     f"unfinished stages {unfinished} ({why})",
                signature=sig, replay=_replay(out)))
    elif not out["quiescent"]:
        vs.append(Violation(what=f"{meta.get('shape')} (k={k}, max={meta.get('max_jumps')}): the run did not end within {len(out['actions'])} actions "
                                 f"({sum(accepted.values())} jumps accepted); pending {pending[:6]}", signature="no-termination", replay=_replay(out)))
    return vs


def run_engine(ctx, res: RunResult, cases: list[dict]) -> list[dict]:
    from harness import engine_corr
    t0 = time.time()
    outs = []
    for lo in range(0, len(cases), 100):      # one oracle process per chunk (its timeout is per call)
        outs += engine_corr.run_batch(cases[lo:lo + 100])
    dist = {"kinds": {}, "shape": {}, "max_jumps": {}, "k": {}, "placement": {}, "final_wf": {}, "actions_total": 0,
            "commits_compared": 0, "task_executions": 0, "jump_deliveries": 0, "quiescent": 0}
    ndis = 0
    distinct = set()
    for o in outs:
        c = o["case"]
        meta = c.get("c15", {})
        key = c["kind"] + ":" + str(c.get("policy"))
        dist["kinds"][key] = dist["kinds"].get(key, 0) + 1
        for f, v in (("shape", meta.get("shape")), ("max_jumps", str(meta.get("max_jumps"))),
                     ("k", "forever" if meta.get("k") == FOREVER else str(meta.get("k"))), ("placement", meta.get("placement"))):
            dist[f][v] = dist[f].get(v, 0) + 1
        dist["final_wf"][o["final"]["wf"]] = dist["final_wf"].get(o["final"]["wf"], 0) + 1
        dist["actions_total"] += len(o["actions"])
        dist["commits_compared"] += sum(len(t) for t in o["traces"])
        dist["task_executions"] += len(o["ledger"])
        dist["jump_deliveries"] += sum(1 for r in o["results"] if r.get("polled") == "JumpToStage")
        dist["quiescent"] += 1 if o["quiescent"] else 0
        distinct.add(json.dumps(o["actions"]) + json.dumps(c["spec"], sort_keys=True))
        d = o.get("disagreement")
        if d:
            ndis += 1
            if len(res.disagreements) < 10:
                res.disagreements.append({"engine_case": {kx: v for kx, v in c.items() if kx not in ("spec", "actions")}, "spec": c["spec"],
                                          "first_difference": {kx: (v[:400] if isinstance(v, str) else v) for kx, v in d.items()},
                                          "actions": o["actions"][: (d.get("action_index") or 0) + 1]})
        res.violations.extend(monitor(o))
    res.evaluations += len(outs)
    res.distinct_nontrivial += len(distinct)
    res.traces_validated += len(outs)
    res.distribution["engine"] = dist
    res.extra["engine_wall_s"] = round(time.time() - t0, 1)
    res.extra["engine_disagreements"] = ndis
    if outs:
        o = max(outs, key=lambda o: sum(1 for r in o["results"] if r.get("polled") == "JumpToStage"))
        res.samples.append({"name": o["case"].get("name"), "c15": o["case"].get("c15"), "spec": o["case"]["spec"],
                            "actions": o["actions"][:12], "executions": len(o["ledger"]),
                            "final": {"wf": o["final"]["wf"], "stages": {s["ref"]: s["status"] for s in o["final"]["stages"]}}})
    return outs


def run(ctx) -> RunResult:
    res = RunResult(rule=(
        "1: (graph as real Workflow, seed stage, every target) -> the four traversal functions vs closed_downstream / "
        "all_dependents / skip_candidates in Coq (ordered lists where the Python order is deterministic, sets for the DFS "
        "of get_downstream_stages); 2: engine runs (spec, online-chosen action list): real engine vs extracted Engine model "
        "after every write commit; distinct = distinct cases; non-trivial = traversal cases with a non-empty result, engine "
        "runs with >= 1 JumpToStage delivery"))
    cases, descr, viol, stats = traversal_cases(ctx)
    fail, err = lib.coq_failing_indices(TR_REQ, TR_CHECK, TR_TYPE, cases, "c15_tr")
    if err:
        res.disagreements.append({"what": "traversal model evaluation failed", "detail": err[:800]})
    for i in fail[:10]:
        res.disagreements.append({"what": "traversal functions differ from closed_downstream / all_dependents / skip_candidates", "case": descr[i]})
    res.violations.extend(viol[:20])
    res.evaluations += len(cases)
    res.distinct_nontrivial += len({c for c, d in zip(cases, descr) if d["resettable"] or d["downstream"]})
    res.traces_validated += len(cases)
    res.distribution["traversal"] = stats
    res.samples += [d for d in descr if d["resettable"] and len(d["resettable"]) < len(d["downstream"])][:2]
    try:
        run_engine(ctx, res, engine_cases(ctx))
    except ImportError as e:
        res.notes.append(f"engine part not available: {e!r}")
    res.notes.append("model coverage: the traversal theorems and the differential cover ANY graph (shuffled row order, cycles, unknown "
                     "refs); engine RUNS are generated with requisites at smaller row indices, which the Engine handlers assume "
                     "(merged_ancestor_outputs folds in index order)")
    return res


def search(ctx, broken):
    vs: list[Violation] = []
    sub = lib.Ctx(pid=PID, tier="thorough", seed=ctx.seed + 1, rng=random.Random(ctx.seed * 7919 + 15))
    r = RunResult()
    try:
        _, _, tv, _ = traversal_cases(sub)
        vs += tv
        run_engine(sub, r, engine_cases(sub))
        vs += r.violations
    except Exception as e:  # pragma: no cover
        vs.append(Violation(what=f"search crashed: {e!r}", signature="search-crashed", replay={}))
    return vs


def replay(obj) -> bool:
    r = obj["replay"]
    sig = obj.get("signature")
    if r.get("kind") == "traversal":
        lib.ensure_repo_on_path()
        order, reqs, sd = r["order"], r["reqs"], r["seed"]
        pairs = [(sd, r["target"])] if "target" in r else []
        per_seed, per_pair, _ = real_traversals(order, reqs, [sd], pairs)
        rq = {x: set(reqs[x]) for x in order}
        res, skp, deps, ndeps = per_seed[sd]
        if sig == "traversal:resettable":
            return set(res) == closure(rq, sd) and len(res) == len(set(res)) and set(skp) == closure(rq, sd)
        if sig == "traversal:downstream":
            return set(deps) == dependents(rq, sd) and ndeps == len(deps)
        b = r["target"]
        ws = closure(rq, sd) - ({b} | dependents(rq, b))
        return per_pair[(sd, b)] == [x for x in order if x in ws]
    from harness import engine_corr
    case = dict(r.get("case", {}))
    case.update(spec=r["spec"], kind="script", actions=r["actions"])
    case.setdefault("seed", 0)
    out = engine_corr.run_batch([case], nproc=1)[0]
    out["case"] = dict(out["case"], policy=r.get("case", {}).get("policy"))
    vs = monitor(out)
    return not any(v.signature == sig for v in vs) and not (sig is None and vs)
