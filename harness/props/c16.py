"""C16 -- a stage sees exactly its ancestors' outputs, the nearest ancestor winning; lists accumulate;
fan-in reducers combine all upstream branches, the order-insensitive ones whatever the order.

Proof side: coq/props/C16.v over coq/model/DataFlow.v + Reducers.v (BFS / Kahn / merge / _plan_stage /
reducers.py as coded, every set-iteration and row order a parameter).

Correspondence (every run):
  * random + named + malformed graphs (<= 8 stages, overlapping scalar / list / None / dict valued
    output keys, own contexts, reducers) are written to a real SqliteWorkflowStore scratch DB; for every
    stage the real get_merged_ancestor_outputs, get_upstream_stages and StartStagePlannerMixin._plan_stage
    run in worker subprocesses under several PYTHONHASHSEED values (set iteration orders differ);
    the merge order the implementation actually used is observed through a probe list key in a second
    pass and handed to the model, which must reproduce the merge order, the merged outputs and the
    planned context (or the exception kind) exactly -- evaluated inside Coq (DataFlow.check_case);
  * a second planning of the same stage after its ancestors' outputs changed (jump re-arm:
    store_stage, reset_stage_for_retry, plan again) against DataFlow.replan_context;
  * apply_output_reducers on random value multisets under ALL permutations of <= 5 branches against
    Reducers.apply_output_reducers.
Monitors (the property statement evaluated directly on what the implementation returned): visibility,
own value wins, nearest ancestor wins on path-ordered keys, list accumulation, reducers = independent
oracle and permutation-invariant, second iteration sees current values (also on the real engine).
"""
from __future__ import annotations

import itertools
import json
import os
import random
import subprocess
import sys
import tempfile
import time

from harness import lib
from harness.lib import RunResult, Violation

PID = "C16"
COQ_TARGETS = ["props/C16.vo", "model/EngineInv.vo"]   # EngineInv: needed by the extracted oracle (engine part)
THEOREMS = ["Stab.props.C16." + t for t in (
    "C16_bfs_exact", "C16_kahn_result", "C16_kahn_topological", "C16_fuel_suffices", "C16_visibility",
    "C16_noninterference",
    "C16_precedence_own", "C16_precedence", "C16_path_ordered", "C16_lists",
    "C16_reducers_sum", "C16_reducers_max_min", "C16_reducers_sum_all", "C16_reducers_extremum_all",
    "C16_reducers_collect", "C16_reducers_extend", "C16_reducers_collect_all", "C16_reducers_merge",
    "C16_reducers", "C16_iteration_refuted")]
TRUSTED_BASE = [
    "CPython: a set built by the same insertions iterates in the same order within one process (used to observe "
    "the merge order with a probe key in a second pass); dict == and list == on JSON values",
    "SQLite UNIQUE(execution_id, ref_id): one row per ref_id (the model's `lookup` is then unambiguous)",
    "JSON values are modelled as None / int / dict-of-int / list of those; floats (non-associative sum), strings, "
    "bools and nested lists are modelled-not-verified and never generated",
]
ASSUMPTIONS = [
    "the dependency graph is acyclic and every requisite has a row (validated at submit time); the model and the "
    "correspondence nevertheless cover cyclic and dangling graphs (Kahn drops a cycle silently, a missing row is a KeyError)",
    "no custom reducer is registered (register_reducer); built-in registry regenerated from reducers.py",
    "_plan_stage is called directly on a real store (plus one real-engine jump loop); the context handed to Task.execute in "
    "full engine runs - every delivery order, a crash after every commit with FIFO / LIFO drain, recovery sweeps - is checked "
    "by the engine part (commit-level correspondence with model/Engine.v, monitor m_c16)",
]

PROBE = "zz_probe"
KEYS = ["k0", "k1", "k2", "k3", "k4", "k5"]
REDUCER_NAMES = ["collect", "append", "extend", "sum", "max", "min", "merge", "first", "last"]
HASHSEEDS = ["0", "1", "2", "3", "7", "11", "42", "1234"]
STALE_SIG = "stale-hydrated-context-after-rearm"


# ================================================================================================
# generator
# ================================================================================================

def _atom(rng, allow_dict=True):
    r = rng.random()
    if r < 0.08:
        return None
    if allow_dict and r < 0.16:
        ks = rng.sample(range(4), rng.randint(0, 3))
        return {f"d{k}": rng.randint(-3, 9) for k in sorted(ks)}
    return rng.randint(-3, 9)


def _list(rng, weird=False):
    n = rng.choice([0, 1, 2, 2, 3, 4])
    out = []
    for _ in range(n):
        if weird and rng.random() < 0.15:
            out.append(_atom(rng))
        else:
            out.append(rng.randint(0, 6))
    if out and rng.random() < 0.25:
        out.append(rng.choice(out))          # a duplicate inside one contributor
    return out


def _value(rng, kind):
    """kind: 'scalar' | 'list' | 'mixed'"""
    if kind == "mixed":
        kind = rng.choice(["scalar", "list"])
    if kind == "list":
        return _list(rng, weird=rng.random() < 0.3)
    return _atom(rng)


def _refname(rng, used):
    while True:
        n = rng.choice([1, 2, 3, 4, 6])
        s = "".join(rng.choice("abcdefghijklmnopqrstuvwxyz0123456789") for _ in range(n))
        if s not in used and not s.startswith("zz"):
            used.add(s)
            return s


def gen_graph(rng, n=None, shape=None):
    n = n or rng.choice([2, 3, 4, 4, 5, 5, 6, 6, 7, 8])
    shape = shape or rng.choice(["random", "random", "random", "chain", "diamonds", "fanin", "layers", "two"])
    reqs = [[] for _ in range(n)]
    if shape == "chain":
        for i in range(1, n):
            reqs[i] = [i - 1]
    elif shape == "fanin":
        for i in range(1, n - 1):
            reqs[i] = [0] if rng.random() < 0.6 else []
        reqs[n - 1] = list(range(1, n - 1)) or [0]
    elif shape == "diamonds":
        for i in range(1, n):
            k = rng.choice([1, 2, 2, 3])
            reqs[i] = sorted(rng.sample(range(i), min(k, i)))
    elif shape == "layers":
        layer = [0]
        layers = [[0]]
        for i in range(1, n):
            if rng.random() < 0.45:
                layers.append([])
            if not layers[-1] and len(layers) > 1:
                pass
            layers[-1].append(i)
        for li in range(1, len(layers)):
            for i in layers[li]:
                prev = layers[li - 1]
                if prev:
                    reqs[i] = sorted(rng.sample(prev, rng.randint(1, len(prev))))
    elif shape == "two":
        half = max(1, n // 2)
        for i in range(1, half):
            reqs[i] = sorted(rng.sample(range(i), rng.randint(1, min(2, i))))
        for i in range(half + 1, n):
            reqs[i] = sorted(rng.sample(range(half, i), rng.randint(1, min(2, i - half))))
    else:
        for i in range(1, n):
            k = rng.choice([0, 1, 1, 2, 2, 3])
            reqs[i] = sorted(rng.sample(range(i), min(k, i)))
    return n, shape, reqs


def gen_case(rng, name=None, n=None, shape=None):
    n, shape, reqs = gen_graph(rng, n, shape)
    used = set()
    refs = [_refname(rng, used) for _ in range(n)]
    if rng.random() < 0.3:                    # creation order need not be topological
        perm = list(range(n))
        rng.shuffle(perm)
    else:
        perm = list(range(n))
    kinds = {k: rng.choice(["scalar", "scalar", "list", "list", "mixed"]) for k in KEYS}
    nkeys = rng.choice([2, 3, 4, 6])
    pool = KEYS[:nkeys]
    stages = []
    for i in range(n):
        outs = {}
        for k in rng.sample(pool, min(nkeys, rng.choice([0, 1, 1, 2, 2, 3, 4]))):
            outs[k] = _value(rng, kinds[k])
        if rng.random() < 0.7:
            outs[f"u{i}"] = rng.randint(0, 9)
        own = {}
        for k in rng.sample(pool, rng.choice([0, 0, 1, 1, 2])):
            own[k] = _value(rng, kinds[k])
        if rng.random() < 0.4:
            own[f"own{i}"] = rng.randint(0, 9)
        reds = {}
        if len(reqs[i]) >= 2 and rng.random() < 0.55 or (reqs[i] and rng.random() < 0.08):
            for k in rng.sample(pool, rng.choice([1, 1, 2])):
                reds[k] = rng.choice(REDUCER_NAMES + ["sum", "sum", "max", "min", "collect"]) if rng.random() > 0.04 else "bogus"
        stages.append({"ref": refs[i], "reqs": [refs[j] for j in reqs[i]], "outputs": outs, "context": own, "reducers": reds})
    # make reducer keys meaningful: upstream branches mostly carry numbers under them
    byref = {s["ref"]: s for s in stages}
    for s in stages:
        for k, rn in s["reducers"].items():
            for r in s["reqs"]:
                if rng.random() < 0.8:
                    if rn in ("sum", "max", "min"):
                        v = rng.randint(-5, 20) if rng.random() < 0.85 else _value(rng, "mixed")
                    elif rn == "merge":
                        v = {f"d{j}": rng.randint(0, 9) for j in sorted(rng.sample(range(4), rng.randint(0, 2)))} if rng.random() < 0.8 else _value(rng, "mixed")
                    else:
                        v = _value(rng, "mixed")
                    byref[r]["outputs"][k] = v
    case = {"name": name or f"random/{shape}", "mode": "api", "stages": [stages[p] for p in perm]}
    # second iteration (jump re-arm): new outputs for the ancestors of one stage
    if rng.random() < 0.35:
        cands = [s["ref"] for s in case["stages"] if s["reqs"]]
        if cands:
            t = rng.choice(cands)
            new = {}
            for a in ancestors_py(case, t):
                old = byref[a]["outputs"]
                nv = {}
                for k, v in old.items():
                    if rng.random() < 0.85:
                        nv[k] = (v + 10 + rng.randint(0, 5)) if isinstance(v, int) and not isinstance(v, bool) else _value(rng, kinds.get(k, "mixed"))
                if rng.random() < 0.2:
                    nv[rng.choice(pool)] = _value(rng, "mixed")
                new[a] = nv
            case["iter2"] = {"target": t, "outputs": new}
    return case


def S(ref, reqs=(), outputs=None, context=None, reducers=None):
    return {"ref": ref, "reqs": list(reqs), "outputs": {} if outputs is None else outputs,
            "context": context or {}, "reducers": reducers or {}}


def named_cases():
    C = []

    def add(name, stages, mode="api", iter2=None):
        c = {"name": "named/" + name, "mode": mode, "stages": stages}
        if iter2:
            c["iter2"] = iter2
        C.append(c)

    add("chain-scalar-override", [S("a", [], {"k0": 1}), S("b", ["a"], {"k0": 2}), S("c", ["b"], {"k1": 5}), S("d", ["c"])],
        iter2={"target": "d", "outputs": {"a": {"k0": 11}, "b": {"k0": 12}, "c": {"k1": 15}}})
    add("chain-far-ancestor-only", [S("a", [], {"k0": 1}), S("b", ["a"]), S("c", ["b"])],
        iter2={"target": "b", "outputs": {"a": {"k0": 2}}})
    add("diamond-unordered", [S("a", [], {"k0": 1, "k1": [1, 2]}), S("b", ["a"], {"k0": 2, "k1": [2, 3], "k2": 5}),
                              S("b2", ["a"], {"k1": [9], "k2": 7, "k3": 3}), S("c", ["b", "b2"], {}, {"k4": 1, "k1": [3, 4]}),
                              S("z", [], {"k5": 1})])
    add("fanin-sum", [S("g1", [], {"k0": 3}), S("g2", [], {"k0": 4}), S("g3", [], {"k0": None}), S("g4", [], {"k1": 1}),
                      S("j", ["g1", "g2", "g3", "g4"], {}, {}, {"k0": "sum"})])
    add("fanin-collect-mixed", [S("g1", [], {"k0": [1, 2]}), S("g2", [], {"k0": 3}), S("g3", [], {"k0": None}),
                                S("j", ["g1", "g2", "g3"], {}, {}, {"k0": "collect"}),
                                S("j2", ["g1", "g2", "g3"], {}, {}, {"k0": "extend"}),
                                S("j3", ["g1", "g2", "g3"], {}, {}, {"k0": "append"})])
    add("fanin-max-min", [S("g1", [], {"k0": 3}), S("g2", [], {"k0": -4}), S("g3", [], {"k0": None}),
                          S("j", ["g1", "g2", "g3"], {}, {}, {"k0": "max"}), S("j2", ["g1", "g2", "g3"], {}, {}, {"k0": "min"})])
    add("max-all-none-valueerror", [S("g1", [], {"k0": None}), S("g2", [], {"k0": None}), S("j", ["g1", "g2"], {}, {}, {"k0": "max"})])
    add("sum-with-list-typeerror", [S("g1", [], {"k0": 1}), S("g2", [], {"k0": [1]}), S("j", ["g1", "g2"], {}, {}, {"k0": "sum"})])
    add("max-mixed-typeerror", [S("g1", [], {"k0": 1}), S("g2", [], {"k0": [1]}), S("j", ["g1", "g2"], {}, {}, {"k0": "max"})])
    add("max-lists-lexicographic", [S("g1", [], {"k0": [1, 5]}), S("g2", [], {"k0": [2]}), S("g3", [], {"k0": [1, 5, 0]}),
                                    S("j", ["g1", "g2", "g3"], {}, {}, {"k0": "max"}), S("j2", ["g1", "g2", "g3"], {}, {}, {"k0": "min"})])
    add("max-single-dict", [S("g1", [], {"k0": {"d0": 1}}), S("g2", [], {}), S("j", ["g1", "g2"], {}, {}, {"k0": "max"})])
    add("unknown-reducer", [S("g1", [], {"k0": 1}), S("g2", [], {"k0": 2}), S("j", ["g1", "g2"], {}, {}, {"k1": "bogus"})])
    add("reducer-shields-own", [S("g1", [], {"k0": 1}), S("g2", [], {"k0": 2}), S("j", ["g1", "g2"], {}, {"k0": 99, "k1": 5}, {"k0": "sum"})])
    add("reducer-key-no-branch-drops-own", [S("r", [], {"k0": 7}), S("g1", ["r"], {"k1": 1}), S("g2", ["r"], {"k1": 2}),
                                            S("j", ["g1", "g2"], {}, {"k0": 99}, {"k0": "sum"})])
    add("reducer-merge", [S("g1", [], {"k0": {"d0": 1, "d1": 2}}), S("g2", [], {"k0": {"d1": 3, "d2": 4}}), S("g3", [], {"k0": 5}),
                          S("j", ["g1", "g2", "g3"], {}, {}, {"k0": "merge"})])
    add("reducer-first-last", [S("g1", [], {"k0": 1}), S("g2", [], {"k0": 2}), S("g3", [], {"k0": 3}),
                               S("j", ["g1", "g2", "g3"], {}, {}, {"k0": "first"}), S("j2", ["g1", "g2", "g3"], {}, {}, {"k0": "last"})])
    add("reducer-on-chain-single-upstream", [S("a", [], {"k0": 1}), S("b", ["a"], {"k0": 2}), S("c", ["b"], {}, {}, {"k0": "collect"})])
    add("list-dedupe", [S("a", [], {"k0": [1, 1, 2]}), S("b", ["a"], {"k0": [2, 3, 3, 1]}), S("c", ["b"], {}, {"k0": [3, 4, 4]})],
        iter2={"target": "c", "outputs": {"a": {"k0": [7]}, "b": {"k0": [8, 7]}}})
    add("scalar-list-scalar-on-chain", [S("a", [], {"k0": 1}), S("b", ["a"], {"k0": [1, 2]}), S("c", ["b"], {"k0": [2, 5]}),
                                        S("d", ["c"], {"k0": 7}), S("e", ["d"], {"k0": [7]}), S("f", ["e"], {}, {"k0": [8]})])
    add("none-and-dict-scalars", [S("a", [], {"k0": 5, "k1": {"d0": 1}}), S("b", ["a"], {"k0": None, "k1": {"d1": 2}}), S("c", ["b"])])
    add("list-items-none-dict", [S("a", [], {"k0": [None, {"d0": 1}, 2]}), S("b", ["a"], {"k0": [{"d0": 1}, None, {"d0": 2}]}), S("c", ["b"])])
    add("empty-outputs", [S("a"), S("b", ["a"]), S("c", ["a", "b"], {}, {"k0": 1})])
    add("roots-only", [S("a", [], {"k0": 1}), S("b", [], {"k0": 2})])
    add("creation-order-reversed", [S("c", ["b"], {}, {}), S("b", ["a"], {"k0": 2}), S("a", [], {"k0": 1})])
    add("wide-fanin-unordered-lists", [S("r", [], {"k0": [0]})] + [S(f"g{i}", ["r"], {"k0": [i, 0], "k1": i}) for i in range(1, 6)]
        + [S("j", [f"g{i}" for i in range(1, 6)], {}, {"k0": [9]})])
    add("long-chain-8", [S("s0", [], {"k0": 0, "k1": [0]})] + [S(f"s{i}", [f"s{i-1}"], {"k0": i, "k1": [i]} if i % 2 else {}) for i in range(1, 8)])
    # malformed (written with SQL; Workflow.create would refuse them)
    add("dangling-requisite", [S("a", [], {"k0": 1}), S("b", ["a", "ghost"], {"k0": 2}), S("c", ["b"])], mode="sql")
    add("self-loop", [S("a", ["a"], {"k0": 1}, {}, {"k0": "collect"}), S("b", ["a"])], mode="sql")
    add("two-cycle-upstream", [S("r", [], {"k1": 1}), S("a", ["b", "r"], {"k0": 1}), S("b", ["a"], {"k0": 2}), S("c", ["b", "r"])], mode="sql")
    add("cycle-through-target", [S("a", ["c"], {"k0": 1}), S("b", ["a"], {"k0": 2}), S("c", ["b"], {"k0": 3})], mode="sql")
    add("duplicate-requisites", [S("a", [], {"k0": 1}), S("b", ["a", "a"], {"k0": 2}), S("c", ["b", "a", "b"], {}, {}, {"k0": "collect"})], mode="sql")
    add("null-outputs-and-reqs", [{"ref": "a", "reqs": None, "outputs": None, "context": {}, "reducers": {}},
                                  {"ref": "b", "reqs": ["a"], "outputs": None, "context": {"k0": 1}, "reducers": {}},
                                  {"ref": "c", "reqs": ["b", "a"], "outputs": {"k0": 2}, "context": {}, "reducers": {"k0": "sum"}}], mode="sql")
    return C


def exhaustive_shapes(n):
    """every DAG on n stages whose edges go from a lower to a higher index (2^(n(n-1)/2) graphs); stage i
    outputs a scalar under k0, a list under k1 and, when i is even, a scalar under k2; the last stage sets k2"""
    edges = [(i, j) for j in range(n) for i in range(j)]
    out = []
    for mask in range(1 << len(edges)):
        reqs = [[] for _ in range(n)]
        for b, (i, j) in enumerate(edges):
            if mask >> b & 1:
                reqs[j].append(f"s{i}")
        stages = [S(f"s{i}", reqs[i], dict({"k0": i, "k1": [i, 0]}, **({"k2": 10 + i} if i % 2 == 0 else {})),
                    {"k2": 99} if i == n - 1 else {}) for i in range(n)]
        out.append({"name": f"exhaustive/{n}-stage-shapes", "mode": "api", "stages": stages})
    return out


def gen_malformed(rng):
    c = gen_case(rng, name="malformed")
    c.pop("iter2", None)
    c["mode"] = "sql"
    refs = [s["ref"] for s in c["stages"]]
    kind = rng.choice(["dangling", "cycle", "selfloop", "dupreq", "nulls"])
    s = rng.choice(c["stages"])
    if kind == "dangling":
        s["reqs"] = s["reqs"] + ["ghost" + str(rng.randint(0, 2))]
    elif kind == "cycle":
        t = rng.choice(c["stages"])
        if t["ref"] not in s["reqs"]:
            s["reqs"] = s["reqs"] + [t["ref"]]
        if s["ref"] not in t["reqs"] and rng.random() < 0.7:
            t["reqs"] = t["reqs"] + [s["ref"]]
    elif kind == "selfloop":
        s["reqs"] = s["reqs"] + [s["ref"]]
    elif kind == "dupreq":
        if s["reqs"]:
            s["reqs"] = s["reqs"] + [rng.choice(s["reqs"])]
        else:
            s["reqs"] = [rng.choice(refs)] * 2
    else:
        s["outputs"] = None
        if not s["reqs"]:
            s["reqs"] = None
    c["name"] = "malformed/" + kind
    return c


# ================================================================================================
# independent Python view of a case (used by the monitors only)
# ================================================================================================

def _reqs(s):
    return list(dict.fromkeys(s["reqs"] or []))


def ancestors_py(case, ref):
    by = {s["ref"]: s for s in case["stages"]}
    seen, todo = set(), [ref]
    while todo:
        cur = todo.pop()
        for r in _reqs(by[cur]) if cur in by else []:
            if r not in seen and r != ref:
                seen.add(r)
                todo.append(r)
    return sorted(seen)


def case_is_valid_dag(case):
    by = {s["ref"]: s for s in case["stages"]}
    if len(by) != len(case["stages"]):
        return False
    for s in case["stages"]:
        for r in s["reqs"] or []:
            if r not in by:
                return False
    state = {}

    def visit(r):
        if state.get(r) == 1:
            return False
        if state.get(r) == 2:
            return True
        state[r] = 1
        for q in _reqs(by[r]):
            if not visit(q):
                return False
        state[r] = 2
        return True
    return all(visit(r) for r in by)


def _isnum(v):
    return isinstance(v, int) and not isinstance(v, bool)


def _dedupe_concat(lists):
    out = None
    for l in lists:
        if out is None:
            out = list(l)
        else:
            for it in l:
                if it not in out:
                    out.append(it)
    return out


def monitor_plan(case, outputs_by_ref, target, planned):
    """The property statement evaluated on what _plan_stage produced (planned: dict without engine keys).
    outputs_by_ref: the outputs the ancestors have NOW.  Returns list of (monitor, detail)."""
    by = {s["ref"]: s for s in case["stages"]}
    st = by[target]
    own = st["context"] or {}
    reds = st["reducers"] or {}
    anc = ancestors_py(case, target)
    ancs_of = {a: set(ancestors_py(case, a)) for a in anc}
    outs = {a: (outputs_by_ref.get(a) or {}) for a in anc}
    bad = []
    expect_keys = {k for k in own if k not in reds}
    for a in anc:
        expect_keys |= set(outs[a])
    got_keys = set(planned)
    if got_keys - expect_keys:
        bad.append(("visibility:foreign-key", sorted(got_keys - expect_keys)))
    if expect_keys - got_keys:
        bad.append(("visibility:missing-key", sorted(expect_keys - got_keys)))
    for k in sorted(expect_keys & got_keys):
        if k in reds:
            continue
        contrib = [a for a in anc if k in outs[a]]
        if k in own and not isinstance(own[k], list):
            if planned[k] != own[k]:
                bad.append(("precedence:own-value-lost", {"key": k, "own": own[k], "seen": planned[k]}))
            continue
        if k not in own:
            maxes = [m for m in contrib if all(x == m or x in ancs_of[m] for x in contrib)]
            if maxes and not isinstance(outs[maxes[0]][k], list):
                if planned[k] != outs[maxes[0]][k]:
                    bad.append(("precedence:nearest-ancestor-lost",
                                {"key": k, "nearest": maxes[0], "its_value": outs[maxes[0]][k], "seen": planned[k]}))
                continue
        vals = [outs[a][k] for a in contrib] + ([own[k]] if k in own else [])
        if vals and all(isinstance(v, list) for v in vals):
            seen = planned[k]
            if not isinstance(seen, list):
                bad.append(("lists:not-a-list", {"key": k, "seen": seen}))
                continue
            union = [it for v in vals for it in v]
            if any(it not in seen for it in union) or any(it not in union for it in seen):
                bad.append(("lists:not-the-union", {"key": k, "seen": seen, "contributions": vals}))
            elif all(len(_dedupe_concat([v])) == len(v) for v in vals) and len(_dedupe_concat([seen])) != len(seen):
                bad.append(("lists:item-twice", {"key": k, "seen": seen}))
            chain = sorted(contrib, key=lambda a: len(ancs_of[a]))
            if all(chain[i] in ancs_of[chain[j]] for i in range(len(chain)) for j in range(i + 1, len(chain))):
                want = _dedupe_concat([outs[a][k] for a in chain] + ([own[k]] if k in own else []))
                if want is not None and seen != want:
                    bad.append(("lists:path-order", {"key": k, "seen": seen, "want": want}))
    # reducers against an independent oracle (direct upstreams that have a row)
    ups = [r for r in _reqs(st) if r in by]
    for k, rn in reds.items():
        vals = [(outputs_by_ref.get(u) or {})[k] for u in ups if k in (outputs_by_ref.get(u) or {})]
        if not vals or k not in planned:
            continue
        nums = [v for v in vals if v is not None]
        if rn in ("sum", "max", "min") and all(_isnum(v) for v in nums):
            if rn == "sum":
                want = sum(nums)
            elif nums:
                want = max(nums) if rn == "max" else min(nums)
            else:
                continue
            if planned[k] != want:
                bad.append(("reducers:" + rn, {"key": k, "branch_values": vals, "seen": planned[k], "want": want}))
        elif rn in ("collect", "append", "extend"):
            flat = []
            for v in vals:
                if isinstance(v, list):
                    flat += v
                elif not (rn == "extend" and v is None):
                    flat.append(v)
            canon = lambda l: sorted(json.dumps(x, sort_keys=True) for x in l)
            if not isinstance(planned[k], list) or canon(planned[k]) != canon(flat):
                bad.append(("reducers:" + rn, {"key": k, "branch_values": vals, "seen": planned[k]}))
    return bad


# ================================================================================================
# implementation side (runs in worker subprocesses; PYTHONPATH=<repo>/src:/verif)
# ================================================================================================

def _exc_code(e):
    if isinstance(e, KeyError):
        return 1
    if isinstance(e, TypeError):
        return 2
    if isinstance(e, ValueError):
        return 3
    return 9


def _user_ctx(d):
    return {k: v for k, v in d.items() if not k.startswith("_")}


class _Impl:
    def __init__(self):
        lib.ensure_repo_on_path()
        from stabilize.handlers.start_stage.planner import StartStagePlannerMixin
        from stabilize.handlers.jump_to_stage.reset import reset_stage_for_retry
        from stabilize.models.stage import StageExecution
        from stabilize.models.task import TaskExecution
        from stabilize.models.workflow import Workflow
        from stabilize.persistence.sqlite import SqliteWorkflowStore
        self.StageExecution, self.TaskExecution, self.Workflow = StageExecution, TaskExecution, Workflow
        self.reset_stage_for_retry = reset_stage_for_retry
        self.dir = lib.scratch_dir("c16")
        self.store = SqliteWorkflowStore(connection_string=f"sqlite:///{self.dir}/c16.db", create_tables=True)

        class Planner(StartStagePlannerMixin):
            def __init__(self, repo):
                self.repository = repo
        self.planner = Planner(self.store)

    def close(self):
        try:
            self.store.close()
        except Exception:
            pass
        lib.rm_rf(self.dir)

    def _task(self):
        return [self.TaskExecution.create(name="t", implementing_class="t", stage_start=True, stage_end=True)]

    def build(self, case):
        """Store the case as a workflow; returns (execution_id, {ref: stage_id})."""
        S, W = self.StageExecution, self.Workflow
        conn = self.store._get_connection()
        if case["mode"] == "api":
            stages = [S(ref_id=s["ref"], requisite_stage_ref_ids=set(s["reqs"]), context=json.loads(json.dumps(s["context"])),
                        outputs=json.loads(json.dumps(s["outputs"])), output_reducers=dict(s["reducers"]), tasks=self._task())
                      for s in case["stages"]]
            wf = W.create(application="c16", name="c16", stages=stages)
            self.store.store(wf)
        else:
            stages = [S(ref_id=s["ref"], tasks=self._task()) for s in case["stages"]]
            wf = W.create(application="c16", name="c16", stages=stages)
            self.store.store(wf)
            for s, st in zip(case["stages"], stages):
                ctx = dict(s["context"] or {})
                if s["reducers"]:
                    ctx["_output_reducers"] = dict(s["reducers"])
                conn.execute(
                    "UPDATE stage_executions SET requisite_stage_ref_ids = ?, outputs = ?, context = ? WHERE id = ?",
                    (None if s["reqs"] is None else json.dumps(s["reqs"]),
                     None if s["outputs"] is None else json.dumps(s["outputs"]), json.dumps(ctx), st.id))
            conn.commit()
        return wf.id, {s.ref_id: s.id for s in stages}

    def set_outputs(self, ids, outputs_by_ref):
        conn = self.store._get_connection()
        for ref, outs in outputs_by_ref.items():
            conn.execute("UPDATE stage_executions SET outputs = ? WHERE id = ?", (json.dumps(outs), ids[ref]))
        conn.commit()

    def merged(self, eid, ref):
        try:
            return 0, self.store.get_merged_ancestor_outputs(eid, ref)
        except Exception as e:  # noqa: BLE001 - the kind of exception is the observation
            return _exc_code(e), type(e).__name__

    def plan(self, stage_id):
        st = self.store.retrieve_stage(stage_id)
        try:
            self.planner._plan_stage(st)
            return 0, _user_ctx(st.context), st
        except Exception as e:  # noqa: BLE001
            return _exc_code(e), type(e).__name__, st

    def observe(self, case):
        eid, ids = self.build(case)
        obs = {"targets": {}}
        for s in case["stages"]:
            ref = s["ref"]
            mc, mo = self.merged(eid, ref)
            try:
                ups = [u.ref_id for u in self.store.get_upstream_stages(eid, ref)]
            except Exception as e:  # noqa: BLE001
                ups = ["<" + type(e).__name__ + ">"]
            pc, po, _ = self.plan(ids[ref])
            obs["targets"][ref] = {"mcode": mc, "merged": mo, "ups": ups, "pcode": pc, "planned": po}
        # second pass: a probe list key on every stage makes the merge order observable
        self.set_outputs(ids, {s["ref"]: dict(s["outputs"] or {}, **{PROBE: [i]}) for i, s in enumerate(case["stages"])})
        for s in case["stages"]:
            mc, mo = self.merged(eid, s["ref"])
            obs["targets"][s["ref"]]["order"] = mo.get(PROBE, []) if mc == 0 else None
        if "iter2" in case:
            obs["iter2"] = self.observe_replan(case)
        return obs

    def observe_replan(self, case):
        """plan, persist as StartStageHandler does, ancestors produce new outputs, re-arm, plan again"""
        eid, ids = self.build(case)
        t = case["iter2"]["target"]
        pc, po, st = self.plan(ids[t])
        if pc != 0:
            return {"pcode1": pc}
        self.store.store_stage(st)
        self.set_outputs(ids, case["iter2"]["outputs"])
        st2 = self.store.retrieve_stage(ids[t])
        self.reset_stage_for_retry(st2)
        self.store.store_stage(st2)
        ups = [u.ref_id for u in self.store.get_upstream_stages(eid, t)]
        pc2, po2, _ = self.plan(ids[t])
        return {"pcode1": 0, "planned1": po, "pcode2": pc2, "planned2": po2, "ups": ups}

    def reducers(self, job):
        from stabilize.reducers import apply_output_reducers
        out = []
        for perm in job["perms"]:
            branches = [json.loads(json.dumps(job["branches"][i])) for i in perm]
            try:
                out.append([0, apply_output_reducers(dict(job["reducers"]), branches)])
            except Exception as e:  # noqa: BLE001
                out.append([_exc_code(e), type(e).__name__])
        return out

    def engine_jump(self):
        """a -> b -> c on the real engine; c jumps back to a once; a outputs x = its execution count.
        Returns what b's task saw for x on each of its executions and what a had output by then."""
        from stabilize import TaskResult
        from stabilize.orchestrator import Orchestrator
        from stabilize.queue.dedup import get_deduplicator, reset_deduplicator
        from stabilize.queue.processor import QueueProcessor
        from stabilize.queue.sqlite import SqliteQueue
        from stabilize.tasks.interface import Task
        from stabilize.tasks.registry import TaskRegistry
        ledger = []
        count = {"a": 0, "jumped": False}

        class Producer(Task):
            def execute(self, stage):
                count["a"] += 1
                return TaskResult.success(outputs={"x": count["a"]})

        class Reader(Task):
            def execute(self, stage):
                ledger.append({"stage": stage.ref_id, "a_has_output": count["a"], "saw_x": stage.context.get("x")})
                return TaskResult.success()

        class Jumper(Task):
            def execute(self, stage):
                ledger.append({"stage": stage.ref_id, "a_has_output": count["a"], "saw_x": stage.context.get("x")})
                if not count["jumped"]:
                    count["jumped"] = True
                    return TaskResult.jump_to("a")
                return TaskResult.success()

        def mk(impl):
            return [self.TaskExecution.create(name=impl, implementing_class=impl, stage_start=True, stage_end=True)]
        url = f"sqlite:///{self.dir}/engine.db"
        from stabilize.persistence.sqlite import SqliteWorkflowStore
        store = SqliteWorkflowStore(connection_string=url, create_tables=True)
        q = SqliteQueue(connection_string=url, table_name="queue_messages")
        q._create_table()
        reset_deduplicator()
        get_deduplicator(expected_items=2000)
        reg = TaskRegistry()
        reg.register("prod", Producer)
        reg.register("read", Reader)
        reg.register("jump", Jumper)
        proc = QueueProcessor(q, store=store, task_registry=reg)
        wf = self.Workflow.create(application="c16", name="jump", stages=[
            self.StageExecution(ref_id="a", tasks=mk("prod")),
            self.StageExecution(ref_id="b", requisite_stage_ref_ids={"a"}, tasks=mk("read")),
            self.StageExecution(ref_id="c", requisite_stage_ref_ids={"b"}, context={"_max_jumps": 3}, tasks=mk("jump"))])
        store.store(wf)
        Orchestrator(q).start(wf)
        proc.process_all(timeout=20.0)
        status = store.retrieve(wf.id).status.name
        return {"status": status, "ledger": ledger}


def worker_main():
    jobs = json.load(sys.stdin)
    impl = _Impl()
    out = []
    try:
        for job in jobs:
            try:
                if job["kind"] == "case":
                    out.append(impl.observe(job["case"]))
                elif job["kind"] == "reducers":
                    out.append(impl.reducers(job))
                elif job["kind"] == "engine_jump":
                    out.append(impl.engine_jump())
                else:
                    out.append({"error": "unknown job"})
            except Exception as e:  # noqa: BLE001
                import traceback
                out.append({"error": repr(e), "trace": traceback.format_exc()[-1500:]})
    finally:
        impl.close()
    json.dump(out, sys.stdout)


def run_workers(jobs, seeds):
    """jobs -> observations.  Job i runs in a worker subprocess under PYTHONHASHSEED = job["hashseed"] if it has
    one, else seeds[i % len(seeds)]; at most 60 jobs per worker process."""
    if not jobs:
        return ([], []), []
    assigned = [str(j.get("hashseed") or seeds[i % len(seeds)]) for i, j in enumerate(jobs)]
    groups = {}
    for i, hs in enumerate(assigned):
        groups.setdefault(hs, []).append(i)
    shards = []
    for hs, idx in groups.items():
        for k in range(0, len(idx), 60):
            shards.append((hs, idx[k:k + 60]))
    res = [None] * len(jobs)
    errs = []
    pending = list(shards)
    running = []

    def start(hs, idx):
        env = lib.repo_env({"PYTHONHASHSEED": hs, "PYTHONPATH": f"{lib.REPO / 'src'}:{lib.VERIF}"})
        inf = tempfile.TemporaryFile(mode="w+")
        json.dump([jobs[i] for i in idx], inf)
        inf.seek(0)
        outf = tempfile.TemporaryFile(mode="w+")
        errf = tempfile.TemporaryFile(mode="w+")
        p = subprocess.Popen([lib.PY, "-m", "harness.props.c16", "--worker"], cwd=str(lib.VERIF), env=env,
                             stdin=inf, stdout=outf, stderr=errf, text=True)
        return (hs, idx, p, inf, outf, errf)

    while pending or running:
        while pending and len(running) < lib.NPROC:
            running.append(start(*pending.pop(0)))
        still = []
        for r in running:
            hs, idx, p, inf, outf, errf = r
            if p.poll() is None:
                still.append(r)
                continue
            outf.seek(0)
            errf.seek(0)
            try:
                vals = json.loads(outf.read())
                for i, v in zip(idx, vals):
                    res[i] = v
            except Exception:
                errs.append(f"worker (PYTHONHASHSEED={hs}) rc={p.returncode}: {errf.read()[-800:]}")
            for f in (inf, outf, errf):
                f.close()
        running = still
        if running:
            time.sleep(0.02)
    return (res, assigned), errs


# ================================================================================================
# Coq term printers
# ================================================================================================

class Unmodelled(Exception):
    pass


class Keys:
    def __init__(self):
        self.m = {}

    def id(self, k):
        if k not in self.m:
            self.m[k] = len(self.m)
        return self.m[k]


def cq_atom(v):
    if v is None:
        return "ANone"
    if isinstance(v, bool):
        raise Unmodelled(repr(v))
    if isinstance(v, int):
        return f"(AInt {lib.cq_Z(v)})"
    if isinstance(v, dict):
        items = []
        for k, x in v.items():
            if not (isinstance(k, str) and k[:1] == "d" and k[1:].isdigit() and _isnum(x)):
                raise Unmodelled(repr(v))
            items.append((int(k[1:]), x))
        items.sort()
        return "(ADict " + lib.cq_list(f"({lib.cq_nat(k)}, {lib.cq_Z(x)})" for k, x in items) + ")"
    raise Unmodelled(repr(v))


def cq_value(v):
    if isinstance(v, list):
        return "(VList " + lib.cq_list(cq_atom(x) for x in v) + ")"
    return "(VAtom " + cq_atom(v) + ")"


def cq_ctx(d, keys):
    return lib.cq_list(f"({lib.cq_nat(keys.id(k))}, {cq_value(v)})" for k, v in (d or {}).items())


def cq_reducers(reds, keys):
    return lib.cq_list(f"({lib.cq_nat(keys.id(k))}, rname_of_string {lib.cq_string(n)})" for k, n in (reds or {}).items())


def cq_dag(case, refid, keys, outputs_override=None, context_override=None):
    rows = []
    for s in case["stages"]:
        outs = s["outputs"]
        if outputs_override and s["ref"] in outputs_override:
            outs = outputs_override[s["ref"]]
        ctx = s["context"]
        if context_override and s["ref"] in context_override:
            ctx = context_override[s["ref"]]
        rows.append(f"mkStage {lib.cq_nat(refid(s['ref']))} {lib.cq_list(lib.cq_nat(refid(r)) for r in (s['reqs'] or []))} "
                    f"{cq_ctx(outs, keys)} {cq_ctx(ctx, keys)} {cq_reducers(s['reducers'], keys)}")
    return "[" + ";\n  ".join(rows) + "]"


def make_refid(case):
    m = {s["ref"]: i for i, s in enumerate(case["stages"])}

    def refid(r):
        if r not in m:
            m[r] = 100 + len(m)           # a requisite without a row
        return m[r]
    return refid


REQ = "From Stab.model Require Import Reducers DataFlow."


# ================================================================================================
# run
# ================================================================================================

def build_cases(ctx, quick_n=600, thorough_n=3000):
    rng = ctx.rng
    n = thorough_n if ctx.tier == "thorough" else quick_n
    cases = named_cases()
    for _ in range(n):
        cases.append(gen_case(rng))
    for _ in range(max(20, n // 8)):
        cases.append(gen_malformed(rng))
    cases += exhaustive_shapes(5 if ctx.tier == "thorough" else 4)
    # the named cases and a slice of the random ones additionally run under EVERY hash seed (same graph,
    # different set iteration orders)
    multi = [c for c in cases if c["name"].startswith("named/")] + [c for c in cases if c["name"].startswith("random/")][:(60 if ctx.tier == "thorough" else 12)]
    for c in multi:
        for hs in HASHSEEDS[1:]:
            cases.append(dict(c, hashseed=hs, name=c["name"] + "@seed"))
    return cases


def reducer_jobs(ctx):
    rng = ctx.rng
    jobs = []
    n = 160 if ctx.tier == "thorough" else 45
    maxb = 5 if ctx.tier == "thorough" else 4
    named = [
        ("sum", [{"k0": 1}, {"k0": 2}, {"k0": None}, {"k1": 5}]),
        ("sum", [{"k0": 1}, {"k0": [1]}, {"k0": 2}]),
        ("max", [{"k0": None}, {"k0": None}]),
        ("max", [{"k0": [1, None]}, {"k0": [1, 5]}, {"k0": [2]}]),
        ("min", [{"k0": 3}, {"k0": {"d0": 1}}, {"k0": 1}]),
        ("merge", [{"k0": {"d0": 1}}, {"k0": {"d0": 2, "d1": 3}}, {"k0": 7}]),
        ("collect", [{"k0": [1, 2]}, {"k0": 3}, {"k0": None}, {"k0": {"d1": 1}}]),
        ("extend", [{"k0": [1, 2]}, {"k0": 3}, {"k0": None}, {"k0": []}]),
        ("first", [{"k0": 1}, {"k0": 2}, {"k0": 3}]),
        ("last", [{"k0": 1}, {"k0": 2}, {"k0": 3}]),
        ("bogus", [{"k1": 1}, {"k1": 2}]),
    ]
    specs = [({"k0": rn}, br) for rn, br in named]
    for _ in range(n):
        nb = rng.randint(1, maxb)
        reds = {}
        for k in rng.sample(KEYS[:3], rng.choice([1, 1, 2])):
            reds[k] = rng.choice(REDUCER_NAMES) if rng.random() > 0.03 else "bogus"
        branches = []
        for _b in range(nb):
            o = {}
            for k, rn in reds.items():
                if rng.random() < 0.85:
                    if rn in ("sum", "max", "min"):
                        o[k] = rng.randint(-9, 30) if rng.random() < 0.88 else _value(rng, "mixed")
                    elif rn == "merge":
                        o[k] = {f"d{j}": rng.randint(0, 9) for j in sorted(rng.sample(range(4), rng.randint(0, 3)))} if rng.random() < 0.85 else _value(rng, "mixed")
                    else:
                        o[k] = _value(rng, "mixed")
            if rng.random() < 0.3:
                o["k5"] = rng.randint(0, 3)
            branches.append(o)
        specs.append((reds, branches))
    for reds, branches in specs:
        perms = [list(p) for p in itertools.permutations(range(len(branches)))]
        jobs.append({"kind": "reducers", "reducers": reds, "branches": branches, "perms": perms})
    return jobs


def reducers_well_typed(reds, value_lists):
    """True when the reducer spec must succeed: known names; sum over numbers / None; max, min over numbers /
    None with at least one number; any values for the others.  value_lists: key -> branch values."""
    for k, rn in (reds or {}).items():
        if rn not in REDUCER_NAMES:
            return False
        vals = value_lists.get(k, [])
        nums = [v for v in vals if v is not None]
        if rn == "sum" and not all(_isnum(v) for v in nums):
            return False
        if rn in ("max", "min") and vals and (not nums or not all(_isnum(v) for v in nums)):
            return False
    return True


def monitor_reducers(job, results):
    """order-insensitive reducers give one result over all permutations of the branches"""
    bad = []
    reds, branches = job["reducers"], job["branches"]
    ok = [(p, r[1]) for p, r in zip(job["perms"], results) if r[0] == 0]
    if len(ok) < len(results) and reducers_well_typed(reds, {k: [b[k] for b in branches if k in b] for k in reds}):
        bad.append(("reducers:raises-on-valid-input", {"reducers": reds, "branches": branches,
                                                       "results": [r for r in results if r[0] != 0][:3]}))
    if len(ok) < 2:
        return bad
    canon = lambda l: sorted(json.dumps(x, sort_keys=True) for x in l)
    for k, rn in reds.items():
        vals = [b[k] for b in branches if k in b]
        if not vals:
            continue
        nums = [v for v in vals if v is not None]
        seen = [(p, r.get(k, "<absent>")) for p, r in ok]
        if rn in ("sum", "max", "min") and all(_isnum(v) for v in nums):
            if any(v != seen[0][1] for _, v in seen):
                bad.append(("reducers:order-dependent:" + rn, {"reducers": reds, "branches": branches, "results": seen[:6]}))
            elif len(ok) == len(results) and nums:
                want = sum(nums) if rn == "sum" else (max(nums) if rn == "max" else min(nums))
                if seen[0][1] != want:
                    bad.append(("reducers:wrong-value:" + rn, {"reducers": reds, "branches": branches, "seen": seen[0][1], "want": want}))
        elif rn in ("collect", "append", "extend"):
            if any((not isinstance(v, list)) or canon(v) != canon(seen[0][1]) for _, v in seen if isinstance(seen[0][1], list)):
                bad.append(("reducers:order-dependent:" + rn, {"reducers": reds, "branches": branches, "results": seen[:6]}))
        elif rn == "merge":
            dicts = [v for v in vals if isinstance(v, dict)]
            allk = [x for d in dicts for x in d]
            if len(allk) == len(set(allk)) and any(v != seen[0][1] for _, v in seen):
                bad.append(("reducers:order-dependent:merge", {"reducers": reds, "branches": branches, "results": seen[:6]}))
    return bad


def _current_outputs(case):
    return {s["ref"]: (s["outputs"] or {}) for s in case["stages"]}


def evaluate_case(case, obs, seed, res_violations, coq_cases, coq_meta, replan_cases, replan_meta, stats):
    """monitors + Coq terms for one observed case"""
    valid = case_is_valid_dag(case)
    refid = make_refid(case)
    keys = Keys()
    for k in KEYS:
        keys.id(k)
    try:
        dag_txt = cq_dag(case, refid, keys)
    except Unmodelled as e:
        stats["unmodelled"] += 1
        return [{"what": "generator produced an unmodelled value", "value": str(e)}]
    disagreements = []
    for s in case["stages"]:
        ref = s["ref"]
        o = obs["targets"][ref]
        stats["targets"] += 1
        stats["pcode_%d" % o["pcode"]] = stats.get("pcode_%d" % o["pcode"], 0) + 1
        # --- monitors (valid DAGs only: the property quantifies over DAGs)
        if valid and o["pcode"] == 0:
            stats["monitored"] += 1
            for mon, detail in monitor_plan(case, _current_outputs(case), ref, o["planned"]):
                res_violations.append(Violation(
                    what=f"{mon} on stage {ref!r} of case {case['name']}: {json.dumps(detail, default=str)[:300]}",
                    signature=mon,
                    replay={"kind": "plan", "case": case, "target": ref, "hashseed": seed, "monitor": mon, "detail": detail,
                            "observed_planned": o["planned"]}))
        if valid and o["pcode"] in (2, 3):
            by = {x["ref"]: x for x in case["stages"]}
            vl = {k: [(by[u]["outputs"] or {})[k] for u in _reqs(s) if k in (by[u]["outputs"] or {})] for k in (s["reducers"] or {})}
            if reducers_well_typed(s["reducers"], vl):
                res_violations.append(Violation(
                    what=f"planning stage {ref!r} of case {case['name']} raises {o['planned']} although every reducer input is valid: "
                         f"{json.dumps({'reducers': s['reducers'], 'branch_values': vl}, default=str)[:260]}",
                    signature="reducers:raises-on-valid-input",
                    replay={"kind": "plan", "case": case, "target": ref, "hashseed": seed, "monitor": "reducers:raises-on-valid-input"}))
        # --- Coq case
        try:
            order = [refid(case["stages"][i]["ref"]) for i in (o["order"] or [])]
            ups = [refid(r) for r in o["ups"]]
            mobs = cq_ctx(o["merged"], keys) if o["mcode"] == 0 else "[]"
            pobs = cq_ctx(o["planned"], keys) if o["pcode"] == 0 else "[]"
        except Unmodelled as e:
            disagreements.append({"what": "implementation returned a value outside the modelled domain", "case": case["name"],
                                  "stage": ref, "value": str(e)})
            continue
        coq_cases.append(f"({dag_txt},\n {lib.cq_nat(refid(ref))}, {lib.cq_list(map(lib.cq_nat, order))}, "
                         f"{lib.cq_list(map(lib.cq_nat, ups))}, {lib.cq_nat(o['mcode'])}, {mobs}, {lib.cq_nat(o['pcode'])}, {pobs})")
        coq_meta.append({"case": case, "target": ref, "hashseed": seed, "observed": o})
    # --- second iteration
    if "iter2" in case and "iter2" in obs and obs["iter2"].get("pcode1") == 0:
        it = obs["iter2"]
        t = case["iter2"]["target"]
        new_outputs = dict(_current_outputs(case))
        new_outputs.update(case["iter2"]["outputs"])
        stats["replans"] += 1
        if valid and it["pcode2"] == 0:
            # the stage's own context is what the user set on it: hydrated values are not its own
            for mon, detail in monitor_plan(case, new_outputs, t, it["planned2"]):
                if mon.startswith("precedence:nearest") or mon.startswith("visibility:foreign"):
                    res_violations.append(Violation(
                        what=f"second planning of re-armed stage {t!r} ({case['name']}) does not see the current iteration's "
                             f"ancestor outputs: {mon} {json.dumps(detail, default=str)[:240]}",
                        signature=STALE_SIG,
                        replay={"kind": "replan", "case": case, "hashseed": seed, "monitor": mon, "detail": detail,
                                "planned_first": it["planned1"], "planned_second": it["planned2"]}))
        try:
            o = obs["targets"][t]
            order = lib.cq_list(lib.cq_nat(refid(case["stages"][i]["ref"])) for i in (o["order"] or []))
            ups = lib.cq_list(lib.cq_nat(refid(r)) for r in it["ups"])
            d2 = cq_dag(case, refid, keys, outputs_override=case["iter2"]["outputs"])
            pobs = cq_ctx(it["planned2"], keys) if it["pcode2"] == 0 else "[]"
            replan_cases.append(f"({dag_txt},\n {d2},\n {lib.cq_nat(refid(t))}, {order}, {ups}, {lib.cq_nat(it['pcode2'])}, {pobs})")
            replan_meta.append({"case": case, "hashseed": seed, "observed": it})
        except Unmodelled as e:
            disagreements.append({"what": "implementation returned a value outside the modelled domain (replan)",
                                  "case": case["name"], "value": str(e)})
    return disagreements


CHECK_CASE = "fun c => match c with (d, s, os, ups, mc, mo, pc, po) => check_case d s os ups mc mo pc po end"
CASE_TYPE = "dag * nat * list nat * list nat * nat * ctx * nat * ctx"
REPLAN_TYPE = "dag * dag * nat * list nat * list nat * nat * ctx"


def _check_replan(fixed):
    return (f"fun c => match c with (d1, d2, s, os, ups, pc, po) => check_replan {lib.cq_bool(fixed)} d1 d2 s os ups os ups pc po end")


def run(ctx) -> RunResult:
    t0 = time.time()
    res = RunResult(rule="one evaluation = one (graph, stage) planned on the real store and recomputed by the model in Coq, or one "
                         "(reducer spec, branch permutation); non-trivial = the stage has >= 1 ancestor and the planned context "
                         "has >= 1 key coming from an ancestor, or the permutation is not the identity")
    cases = build_cases(ctx)
    rjobs = reducer_jobs(ctx)
    jobs = [{"kind": "case", "case": c, "hashseed": c.get("hashseed")} for c in cases] + rjobs + [{"kind": "engine_jump"}]
    (obs, seeds), errs = run_workers(jobs, HASHSEEDS)
    for e in errs:
        res.disagreements.append({"what": "implementation worker failed", "detail": e})
    stats = {"targets": 0, "monitored": 0, "replans": 0, "unmodelled": 0}
    coq_cases, coq_meta, replan_cases, replan_meta = [], [], [], []
    shapes = {}
    for c, o, sd in zip(cases, obs[:len(cases)], seeds[:len(cases)]):
        shapes[c["name"]] = shapes.get(c["name"], 0) + 1
        if o is None or "error" in o:
            res.disagreements.append({"what": "implementation harness error", "case": c["name"], "detail": (o or {}).get("trace", "no output")[-600:]})
            continue
        res.disagreements += evaluate_case(c, o, sd, res.violations, coq_cases, coq_meta, replan_cases, replan_meta, stats)
    # ---- model inside Coq
    fail, err = lib.coq_failing_indices(REQ, CHECK_CASE, CASE_TYPE, coq_cases, "c16_cases", shard=150)
    if err:
        res.disagreements.append({"what": "model evaluation failed", "detail": err[:800]})
    for i in fail[:10]:
        m = coq_meta[i]
        res.disagreements.append({"what": "planned context / merged outputs / merge order differ from the model",
                                  "case": m["case"]["name"], "stage": m["target"], "hashseed": m["hashseed"],
                                  "observed": m["observed"], "graph": m["case"]["stages"]})
    if len(fail) > 10:
        res.disagreements.append({"what": f"... and {len(fail) - 10} more differing (graph, stage) cases"})
    rearm = "none"
    if replan_cases:
        f_cur, e1 = lib.coq_failing_indices(REQ, _check_replan(False), REPLAN_TYPE, replan_cases, "c16_replan", shard=150)
        if e1:
            res.disagreements.append({"what": "model evaluation failed (replan)", "detail": e1[:800]})
        rearm = "as-coded"
        if f_cur:
            f_fix, e2 = lib.coq_failing_indices(REQ, _check_replan(True), REPLAN_TYPE, replan_cases, "c16_replanf", shard=150)
            if not f_fix and not e2:
                rearm = "fixed"
                res.notes.append("second planning matches DataFlow.replan_context_fixed on every case: the _hydrated_keys repair "
                                 "is present; C16_iteration_refuted then describes the code before the repair")
            else:
                for i in f_cur[:5]:
                    m = replan_meta[i]
                    res.disagreements.append({"what": "second planning (after re-arm) differs from the model",
                                              "case": m["case"]["name"], "iter2": m["case"]["iter2"], "observed": m["observed"],
                                              "graph": m["case"]["stages"]})
    # ---- reducers under every permutation
    red_cases, red_meta, nperm = [], [], 0
    for job, r in zip(rjobs, obs[len(cases):len(cases) + len(rjobs)]):
        if r is None or isinstance(r, dict):
            res.disagreements.append({"what": "implementation harness error (reducers)", "detail": str(r)[:400]})
            continue
        for mon, detail in monitor_reducers(job, r):
            res.violations.append(Violation(what=f"{mon}: {json.dumps(detail, default=str)[:300]}", signature=mon,
                                            replay={"kind": "reducers", "job": job, "monitor": mon, "detail": detail}))
        keys = Keys()
        for perm, (code, val) in zip(job["perms"], r):
            nperm += 1
            try:
                br = lib.cq_list(cq_ctx(job["branches"][i], keys) for i in perm)
                ob = cq_ctx(val, keys) if code == 0 else "[]"
                red_cases.append(f"({cq_reducers(job['reducers'], keys)}, {br}, {lib.cq_nat(code)}, {ob})")
                red_meta.append({"reducers": job["reducers"], "branches": [job["branches"][i] for i in perm], "observed": [code, val]})
            except Unmodelled as e:
                res.disagreements.append({"what": "reducer returned a value outside the modelled domain", "value": str(e)})
    failr, errr = lib.coq_failing_indices(REQ, "fun c => match c with (reds, br, code, ob) => check_reducers reds br code ob end",
                                          "list (nat * rname) * list ctx * nat * ctx", red_cases, "c16_red", shard=400)
    if errr:
        res.disagreements.append({"what": "model evaluation failed (reducers)", "detail": errr[:800]})
    for i in failr[:8]:
        res.disagreements.append({"what": "apply_output_reducers differs from the model", **red_meta[i]})
    # ---- the real engine, one jump loop
    ej = obs[-1]
    engine = "not-run"
    if isinstance(ej, dict) and "ledger" in ej:
        engine = "ok"
        b_runs = [rec for rec in ej["ledger"] if rec["stage"] == "b"]
        for n, rec in enumerate(b_runs):
            if rec["saw_x"] == rec["a_has_output"]:
                continue
            if n >= 1 and rec["saw_x"] == b_runs[n - 1]["a_has_output"]:
                engine = "stale"
                res.violations.insert(0, Violation(
                    what=f"real engine, jump loop a->b->c (c jumps to a): on its second execution stage b saw x={rec['saw_x']!r} "
                         f"while its ancestor a had just output x={rec['a_has_output']!r} (context hydrated by the first planning "
                         f"shadows the current iteration's outputs)",
                    signature=STALE_SIG, replay={"kind": "engine_jump", "ledger": ej["ledger"]}))
            else:
                engine = "wrong"
                res.violations.insert(0, Violation(
                    what=f"real engine, chain a->b->c: execution {n + 1} of stage b saw x={rec['saw_x']!r} but its ancestor a "
                         f"had output x={rec['a_has_output']!r}",
                    signature="engine:ancestor-output-not-seen", replay={"kind": "engine_jump", "ledger": ej["ledger"]}))
            break
        if not b_runs:
            res.notes.append("engine jump-loop: stage b never ran: " + json.dumps(ej)[:200])
    else:
        res.notes.append("engine jump-loop run did not complete (not counted; the engine harness owns full runs): " + str(ej)[:300])
    # ---- bookkeeping
    nontrivial = 0
    for m in coq_meta:
        o = m["observed"]
        if o["pcode"] == 0 and o["order"] and any(k in (o["merged"] or {}) for k in (o["planned"] or {})):
            nontrivial += 1
    res.evaluations = len(coq_cases) + len(replan_cases) + len(red_cases)
    res.traces_validated = res.evaluations
    res.distinct_nontrivial = nontrivial + sum(1 for j in rjobs for p in j["perms"][1:])
    res.distribution = {
        "graphs": len(cases), "graph_families": dict(sorted(shapes.items())),
        "sizes": {str(n): sum(1 for c in cases if len(c["stages"]) == n) for n in range(1, 9)},
        "stages_planned": stats["targets"], "monitored_valid_dag_plans": stats["monitored"],
        "plan_outcomes": {k: v for k, v in stats.items() if k.startswith("pcode_")},
        "second_plannings": stats["replans"], "rearm_behaviour": rearm,
        "reducer_specs": len(rjobs), "reducer_permutation_runs": nperm,
        "hashseeds": HASHSEEDS, "engine_jump_loop": engine,
        "wall_s": round(time.time() - t0, 1),
    }
    interesting = [m for m in coq_meta if m["observed"]["pcode"] == 0 and len(m["observed"]["order"] or []) >= 3]
    res.samples = [{"case": m["case"]["name"], "stage": m["target"], "hashseed": m["hashseed"],
                    "graph": [[s["ref"], s["reqs"], s["outputs"], s["context"], s["reducers"]] for s in m["case"]["stages"]],
                    "merge_order_observed": [m["case"]["stages"][i]["ref"] for i in m["observed"]["order"]],
                    "planned": m["observed"]["planned"]} for m in interesting[:40:10]]
    # how much the iteration orders really varied: distinct merge orders of one (graph, stage) over the hash seeds
    per = {}
    for m in coq_meta:
        if m["case"]["name"].endswith("@seed") or m["case"].get("hashseed") is None:
            key = (json.dumps(m["case"]["stages"], sort_keys=True), m["target"])
            per.setdefault(key, set()).add(tuple(m["observed"]["order"] or []))
    multi = [len(v) for v in per.values()]
    res.distribution["stage_plans_with_2+_distinct_merge_orders_over_seeds"] = sum(1 for x in multi if x >= 2)
    res.distribution["max_distinct_merge_orders_of_one_stage"] = max(multi) if multi else 0
    # ---- the same property through the ENGINE: what every task execution saw, under every delivery order, a crash after
    # every commit (the claim / plan window included) + restart + recovery, and sweeps; commit-level correspondence with the
    # extracted Engine model (planned_ctx = merged ancestor outputs, hydrated keys) and the monitor m_c16
    try:
        from harness import engine_corr
        engine_corr.extend(ctx, res, PID)
    except ImportError as e:
        res.notes.append(f"engine part not available: {e!r}")
    return res


# ================================================================================================
# search / replay
# ================================================================================================

def search(ctx, broken):
    """monitors only, on a larger stream of graphs (no Coq): look for a concrete failing input"""
    rng = random.Random(ctx.seed * 7919 + 16)
    sub = lib.Ctx(pid=PID, tier="thorough", seed=ctx.seed, rng=rng)
    cases = build_cases(sub, thorough_n=1500)
    rjobs = reducer_jobs(sub)
    (obs, seeds), _ = run_workers([{"kind": "case", "case": c} for c in cases] + rjobs, HASHSEEDS)
    out = []
    dummy = {"targets": 0, "monitored": 0, "replans": 0, "unmodelled": 0}
    for c, o, sd in zip(cases, obs[:len(cases)], seeds[:len(cases)]):
        if o is None or "error" in o:
            continue
        evaluate_case(c, o, sd, out, [], [], [], [], dummy)
    for job, r in zip(rjobs, obs[len(cases):]):
        if isinstance(r, list):
            for mon, detail in monitor_reducers(job, r):
                out.append(Violation(what=f"{mon}: {json.dumps(detail, default=str)[:300]}", signature=mon,
                                     replay={"kind": "reducers", "job": job, "monitor": mon, "detail": detail}))
    return out


def replay(obj) -> bool:
    r = obj["replay"]
    kind = r.get("kind")
    if "actions" in r and "spec" in r and kind not in ("engine_jump", "reducers", "plan", "replan"):
        from harness import engine_corr
        return engine_corr.replay(obj)
    if kind == "engine_jump":
        (obs, _), _ = run_workers([{"kind": "engine_jump"}], ["0"])
        return all(rec["saw_x"] == rec["a_has_output"] for rec in obs[0]["ledger"] if rec["stage"] == "b")
    if kind == "reducers":
        (obs, _), _ = run_workers([r["job"]], ["0"])
        return not monitor_reducers(r["job"], obs[0])
    if kind in ("plan", "replan"):
        case = r["case"]
        (obs, seeds), _ = run_workers([{"kind": "case", "case": case}], [r.get("hashseed") or "0"])
        v = []
        evaluate_case(case, obs[0], seeds[0], v, [], [], [], [], {"targets": 0, "monitored": 0, "replans": 0, "unmodelled": 0})
        want = STALE_SIG if kind == "replan" else r.get("monitor")
        return not any(x.signature == want for x in v)
    return True


def model_planned_context(case, target, order=None, ups=None):
    """Helper for the engine harness: the model's planned context for `target` of a case in this module's JSON
    format ({"stages": [{"ref","reqs","outputs","context","reducers"}]}), computed inside Coq.  `order` / `ups`
    (lists of refs) default to the model's own BFS order / upstream order.  Returns the printed Coq term."""
    refid = make_refid(case)
    keys = Keys()
    d = cq_dag(case, refid, keys)
    s = lib.cq_nat(refid(target))
    o = lib.cq_list(lib.cq_nat(refid(r)) for r in (order or []))
    u = f"(upstream_refs d {s})" if ups is None else lib.cq_list(lib.cq_nat(refid(r)) for r in ups)
    txt = (f"From Coq Require Import List ZArith String.\n{REQ}\nImport ListNotations.\nDefinition d : dag := {d}.\n"
           f"Eval vm_compute in (plan_context d {s} (full_order d {s} {o}) {u}).\n")
    rc, out = lib.coq_run(txt, "c16_model_ctx")
    return {"rc": rc, "coq": out, "keys": dict(keys.m)}


if __name__ == "__main__":
    if "--worker" in sys.argv:
        worker_main()
