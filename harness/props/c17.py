"""C17 — engine property (see DESIGN.md section 6): theorems over coq/model/Engine.v + commit-level correspondence."""
from harness import engine_corr
from harness.lib import RunResult

PID = "C17"
COQ_TARGETS = ["props/C17.vo"]
THEOREMS = []   # default: every Theorem of coq/props/C17.v
TRUSTED_BASE = ["SQLite: a write transaction is atomic and isolated; a crash before COMMIT leaves no trace; AUTOINCREMENT ids increase",
                "task behaviour is a function of (stage, task, n-th execution) (scripted oracle mirrored by a scripted Python Task)",
                "OCaml extraction of coq/model/Engine.v (ExtrOcamlBasic only) + hand-written I/O driver ocaml/oracle.ml"]
ASSUMPTIONS = ["one handler runs at a time (sequential engine model); races are the subject of C04/C07/C11/C18",
               "delayed messages are delivered only when no undelayed message is pending (wall-clock realism of the schedule generator)"]


def run(ctx) -> RunResult:
    res = RunResult()
    engine_corr.extend(ctx, res, PID)
    return res


def replay(obj) -> bool:
    return engine_corr.replay(obj)
