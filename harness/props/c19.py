"""C19 — what is stored or queued is read back unchanged; saving a stage never alters fields the caller did
not change.

Proof side: coq/props/C19.v (13 theorems) over model/Codec.v + model/MsgCodec.v, instantiated on the lists
regenerated from the source by harness/tr/codec.py (gen/Gen_Codec.v, gen/Gen_Messages.v).

Correspondence (validates the translator, the kind semantics and the JSON premise — testing, not proof):
generated workflows / stages / tasks / messages are written through the REAL SqliteWorkflowStore /
SqliteQueue / AtomicTransaction and read back (retrieve, retrieve_stage, poll_one); the model (ideal JSON
instance) is evaluated inside Coq on the record that was written and must predict, field by field, the record
that was observed (model/CodecCheck.v).  Monitors: the field-by-field comparison itself, on the
implementation, for the inputs of the valid stream.
"""
from __future__ import annotations

import copy
import dataclasses
import enum
import json
import math
import os
import time
from datetime import datetime

from harness import lib
from harness.lib import RunResult, Violation

PID = "C19"
COQ_TARGETS = ["props/C19.vo", "model/CodecCheck.vo"]
THEOREMS = ["Stab.props.C19." + t for t in (
    "C19_stage_roundtrip", "C19_task_roundtrip", "C19_tasks_in_order", "C19_workflow_roundtrip",
    "C19_update_copies_equal", "C19_update_frame", "C19_update_frame_covers", "C19_update_other_rows",
    "C19_update_written", "C19_task_update", "C19_message_roundtrip", "C19_message_serialisers_agree",
    "C19_message_metadata_only", "C19_message_registry")]
TRUSTED_BASE = [
    "Python json: json.loads(json.dumps(v)) == v for JSON-representable v (None/bool/int/finite float/str, lists, "
    "str-keyed dicts); json.dumps never returns '' (premise json_ok of every C19 theorem; exercised on every case)",
    "Python set: list(s) enumerates exactly the elements of s (premise json_ok)",
    "sqlite3 / SQLite: a str in a TEXT column, an int64 in an INTEGER column and NULL are stored and returned "
    "unchanged; named parameters bind the dict entries of the same name; ORDER BY id on TEXT is code-point order",
    "python-ulid: ids generated in one process ascend in creation order (premise wf_tasks: ids ascending)",
    "harness/tr/codec.py: the (column, field, kind) lists, UPDATE column lists, serialiser branches and message "
    "class tables are what the AST says (fail-closed; validated by the correspondence)",
    "dataclass constructors store keyword arguments as given (StageExecution.__post_init__ only touches "
    "context['_output_reducers'] / output_reducers)",
]
ASSUMPTIONS = [
    "values are JSON-representable: tuples come back as lists, int dict keys as strings, objects through default=str as "
    "their str() — excluded by wf (jrep) and from the generator's valid stream",
    "fields that are not persisted at all are outside the property's list: Workflow.config_version, "
    "StageExecution.cleanup_on_failure / finalizer_names (output_reducers only via context['_output_reducers'])",
    "Workflow.origin == '' is read back as 'unknown' and a task inserted with version != 0 is read back with version 0 "
    "(what the `or`-default / the SQL literal cannot represent; excluded by wf_workflow / wf_task)",
    "stages are compared by id (SELECT of stages has no ORDER BY); tasks in list order",
    "the SELECT * of retrieve returns every schema column (the _safe_get fallbacks for older schemas are not modelled)",
]

STAGE_LISTED = ["id", "ref_id", "type", "name", "status", "context", "outputs", "requisite_stage_ref_ids", "parent_stage_id",
                "synthetic_stage_owner", "start_time", "end_time", "start_time_expiry", "scheduled_time", "version", "join_type",
                "join_threshold", "split_type", "split_conditions", "mi_config", "deferred_choice_group", "milestone_ref_id",
                "milestone_status", "mutex_key", "cancel_region"]
TASK_LISTED = ["id", "name", "implementing_class", "status", "start_time", "end_time", "stage_start", "stage_end", "loop_start",
               "loop_end", "task_exception_details", "version"]
WORKFLOW_LISTED = ["id", "type", "application", "name", "status", "context", "start_time", "end_time", "start_time_expiry",
                   "trigger", "is_canceled", "canceled_by", "cancellation_reason", "paused", "pipeline_config_id",
                   "is_limit_concurrent", "max_concurrent_executions", "keep_waiting_pipelines", "origin"]
STAGE_UPDATED = ["status", "context", "outputs", "start_time", "end_time"]
STAGE_FRAME = [f for f in STAGE_LISTED if f not in STAGE_UPDATED and f != "version"]
TASK_UPDATED = [f for f in TASK_LISTED if f not in ("id", "version")]
MSG_METADATA = ["message_id", "created_at", "attempts", "max_attempts"]


# ------------------------------------------------------------------------------------------------
# implementation access
# ------------------------------------------------------------------------------------------------

class Impl:
    def __init__(self):
        lib.ensure_repo_on_path()
        from stabilize.models.multi_instance import MultiInstanceConfig
        from stabilize.models.stage import JoinType, SplitType, StageExecution, SyntheticStageOwner
        from stabilize.models.status import WorkflowStatus
        from stabilize.models.task import TaskExecution
        from stabilize.models.workflow import PausedDetails, Trigger, Workflow, WorkflowType
        from stabilize.persistence.sqlite.store import SqliteWorkflowStore
        from stabilize.queue import messages
        from stabilize.queue.sqlite.queue import SqliteQueue
        self.enums = {c.__name__: c for c in (WorkflowStatus, JoinType, SplitType, SyntheticStageOwner, WorkflowType)}
        self.objs = {c.__name__: c for c in (MultiInstanceConfig, Trigger, PausedDetails)}
        self.StageExecution, self.TaskExecution, self.Workflow = StageExecution, TaskExecution, Workflow
        self.messages = messages
        self.dir = lib.scratch_dir("c19")
        self.url = f"sqlite:///{self.dir}/c19.db"
        self.store = SqliteWorkflowStore(self.url, create_tables=True)
        self.queue = SqliteQueue(self.url)
        self.queue._create_table()
        Printer.declare_known(self)

    def concrete_message_classes(self):
        """every message class of queue/messages.py that is not the base of another one (whether registered or not)"""
        M = self.messages
        out = []
        for name, c in vars(M).items():
            if isinstance(c, type) and issubclass(c, M.Message) and c.__module__ == M.__name__ and not c.__subclasses__():
                out.append((name, c))
        return out

    def rollback(self):
        try:
            self.store._get_connection().rollback()
        except Exception:
            pass

    def close(self):
        try:
            self.store.close()
        except Exception:
            pass
        lib.rm_rf(self.dir)

    # ---- spec values: JSON with $-tags for what JSON cannot say ----
    def dec(self, v):
        if isinstance(v, dict):
            if len(v) == 1:
                (k, x), = v.items()
                if k == "$enum":
                    return self.enums[x[0]][x[1]]
                if k == "$set":
                    return {self.dec(e) for e in x}
                if k == "$tuple":
                    return tuple(self.dec(e) for e in x)
                if k == "$obj":
                    return self.objs[x[0]](**{kk: self.dec(vv) for kk, vv in x[1].items()})
                if k == "$dict":
                    return {self.dec(a): self.dec(b) for a, b in x}
            return {k: self.dec(x) for k, x in v.items()}
        if isinstance(v, list):
            return [self.dec(e) for e in v]
        return v

    def build_task(self, ts):
        return self.TaskExecution(**{k: self.dec(v) for k, v in ts.items()})

    def build_stage(self, ss):
        tasks = [self.build_task(t) for t in ss.get("tasks", [])]
        return self.StageExecution(tasks=tasks, **{k: self.dec(v) for k, v in ss["f"].items()})

    def build_workflow(self, spec):
        stages = [self.build_stage(s) for s in spec["stages"]]
        return self.Workflow(stages=stages, **{k: self.dec(v) for k, v in spec["wf"].items()})

    def build_message(self, spec):
        cls = getattr(self.messages, spec["cls"])
        return cls(**{k: self.dec(v) for k, v in spec["fields"].items()})


def fields_of(obj, skip=()):
    return [f.name for f in dataclasses.fields(obj) if f.name not in skip]


def snap(obj, skip, extra=None):
    """field -> deep copy of the value (what the caller wrote / what was observed)"""
    d = {}
    for f in fields_of(obj, skip):
        d[f] = copy.deepcopy(getattr(obj, f))
    if extra:
        d.update(extra)
    return d


STAGE_SKIP = ("tasks", "_execution")
TASK_SKIP = ("_stage",)
WF_SKIP = ("stages",)


# ------------------------------------------------------------------------------------------------
# strict comparison (the monitor) and Coq printing
# ------------------------------------------------------------------------------------------------

def same(a, b) -> bool:
    if isinstance(a, enum.Enum) or isinstance(b, enum.Enum):
        return a is b
    if type(a) is not type(b):
        return False
    if isinstance(a, float):
        return a == b or (math.isnan(a) and math.isnan(b))
    if isinstance(a, (list, tuple)):
        return len(a) == len(b) and all(same(x, y) for x, y in zip(a, b))
    if isinstance(a, dict):
        if sorted((type(k).__name__, repr(k)) for k in a) != sorted((type(k).__name__, repr(k)) for k in b):
            return False
        return all(same(v, b[k]) for k, v in a.items())
    if isinstance(a, (set, frozenset)):
        return a == b and sorted(map(repr, a)) == sorted(map(repr, b))
    if dataclasses.is_dataclass(a):
        return all(same(getattr(a, f.name), getattr(b, f.name)) for f in dataclasses.fields(a))
    return a == b


class Unprintable(Exception):
    pass


class Printer:
    """Python value -> Coq pyval term.  Strings that are not short printable ASCII, floats and datetimes are
    interned per case (injective; the empty string stays empty; the model only compares them for equality)."""

    KNOWN: dict[str, str] = {}      # frequent strings (field / class / member names) -> Coq constant, declared once per file

    def __init__(self):
        self.strs, self.floats, self.dts = {}, {}, {}

    @classmethod
    def declare_known(cls, impl: "Impl") -> None:
        names = {"execution_id", "stage_id", "expected_phase"}
        for c in (impl.StageExecution, impl.TaskExecution, impl.Workflow, *impl.objs.values(), *(c for _, c in impl.concrete_message_classes())):
            names.update(f.name for f in dataclasses.fields(c))
            names.add(c.__name__)
        for n, e in impl.enums.items():
            names.add(n)
            names.update(m.name for m in e)
        cls.KNOWN = {n: "k_" + n for n in sorted(names) if n.isidentifier() and n.isascii()}

    @classmethod
    def known_defs(cls) -> str:
        return "\n".join(f'Definition {ident} : string := "{n}".' for n, ident in cls.KNOWN.items())

    def s(self, x: str) -> str:
        if x in self.KNOWN:
            return self.KNOWN[x]
        plain = len(x) <= 48 and all(32 <= ord(c) < 127 for c in x) and not (x.startswith("~") and x.endswith("~") and len(x) > 1)
        if plain:
            return '"' + x.replace('"', '""') + '"'
        tok = self.strs.setdefault(x, f"~{len(self.strs)}~")
        return f'"{tok}"'

    def val(self, v) -> str:
        if v is None:
            return "VNone"
        if isinstance(v, bool):
            return f"(VBool {'true' if v else 'false'})"
        if isinstance(v, enum.Enum):
            return f"(VEnum {self.s(type(v).__name__)} {self.s(v.name)})"
        if isinstance(v, int):
            return f"(VInt ({v})%Z)"
        if isinstance(v, float):
            if math.isnan(v):
                raise Unprintable("nan")
            return f"(VFloat ({self.floats.setdefault(repr(v), len(self.floats))})%Z)"
        if isinstance(v, str):
            return f"(VStr {self.s(v)})"
        if isinstance(v, list):
            return "(VList [" + "; ".join(self.val(e) for e in v) + "])"
        if isinstance(v, tuple):
            return "(VTuple [" + "; ".join(self.val(e) for e in v) + "])"
        if isinstance(v, dict):
            items = []
            for k, x in v.items():
                if isinstance(k, str):
                    items.append(f"(KStr {self.s(k)}, {self.val(x)})")
                elif isinstance(k, int) and not isinstance(k, bool):
                    items.append(f"(KInt ({k})%Z, {self.val(x)})")
                else:
                    raise Unprintable(f"dict key {k!r}")
            return "(VDict [" + "; ".join(items) + "])"
        if isinstance(v, (set, frozenset)):
            try:
                elems = sorted(v, key=lambda e: (type(e).__name__, e))
            except TypeError:
                raise Unprintable("set of unorderable elements")
            return "(VSet [" + "; ".join(self.val(e) for e in elems) + "])"
        if isinstance(v, datetime):
            return f"(VDatetime ({self.dts.setdefault(v.isoformat(), len(self.dts))})%Z)"
        if dataclasses.is_dataclass(v) and type(v).__name__ in ("MultiInstanceConfig", "Trigger", "PausedDetails"):
            return f"(VObj {self.s(type(v).__name__)} " + self.rec({f.name: getattr(v, f.name) for f in dataclasses.fields(v)}) + ")"
        raise Unprintable(type(v).__name__)

    def rec(self, d: dict) -> str:
        return "[" + "; ".join(f"({self.s(k)}, {self.val(v)})" for k, v in d.items()) + "]"

    def opt_rec(self, d) -> str:
        return "None" if d is None else f"(Some {self.rec(d)})"

    def recs(self, ds) -> str:
        return "[" + "; ".join(self.rec(d) for d in ds) + "]"

    def opt_recs(self, ds) -> str:
        return "None" if ds is None else f"(Some {self.recs(ds)})"

    def msg(self, cls: str, d: dict) -> str:
        return f"(mkMsg {self.s(cls)} {self.rec(d)})"


def cqb(b) -> str:
    return "true" if b else "false"


# ------------------------------------------------------------------------------------------------
# generators (everything from the rng handed in)
# ------------------------------------------------------------------------------------------------

STRS = ["", "a", "name", "héllo", "日本語", "\U0001F600\U0001F389", "á", "‮RTL", "tab\there", "new\nline",
        "quote\"back\\slash", "nul\x00mid", "  ", "' OR 1=1 --", "%s {} {0}", "null", "0", "1e5", " lead/trail ", "{}", "[]",
        "~0~", "true", "NaN", "\x7f\x1f"]
JSON_ONLY_STRS = ["\ud800", "x\udfffy"]            # lone surrogates: fine inside JSON text, not bindable as SQL TEXT
INTS = [0, 1, -1, 7, 255, 2**31, 2**53 + 1, 2**63 - 1, -2**63]
BIG_INTS = [2**63, -2**63 - 1, 10**30, -10**100]   # fine inside JSON, too big for an INTEGER column
FLOATS = [0.0, -0.0, 1.5, -2.25, 0.1 + 0.2, 1e300, 5e-324, 1e-7, 123456789.123456789, float(2**53)]
STATUSES = ["NOT_STARTED", "RUNNING", "PAUSED", "SUSPENDED", "SUCCEEDED", "FAILED_CONTINUE", "TERMINAL", "CANCELED", "REDIRECT",
            "STOPPED", "SKIPPED", "BUFFERED"]
JOINS = ["AND", "OR", "MULTI_MERGE", "DISCRIMINATOR", "N_OF_M"]
SPLITS = ["AND", "OR"]
OWNERS = ["STAGE_BEFORE", "STAGE_AFTER"]
WTYPES = ["PIPELINE", "ORCHESTRATION"]


def E(cls, name):
    return {"$enum": [cls, name]}


class Gen:
    def __init__(self, rng, impl: Impl):
        self.r = rng
        self.impl = impl
        self.stat = {"str_unicode": 0, "str_empty": 0, "str_long": 0, "json_depth_max": 0, "json_nodes": 0}
        # enum members as the implementation has them now (a new member is exercised without editing this file)
        self.members = {c: [m.name for m in cls] for c, cls in impl.enums.items()}

    def gstr(self, json_only=False, nonempty=False):
        r = self.r
        x = r.random()
        if x < 0.55:
            s = r.choice(STRS + (JSON_ONLY_STRS if json_only else []))
        elif x < 0.9:
            s = "".join(r.choice("abcXYZ019_-. /éß中\U0001F680") for _ in range(r.randint(1, 12)))
        elif x < 0.97:
            s = r.choice(STRS) * r.randint(2, 40)
        else:
            s = r.choice(["x", "é", "\U0001F600"]) * r.choice([1000, 10000, 100000])
            self.stat["str_long"] += 1
        if nonempty and s == "":
            s = "z"
        if any(ord(c) > 127 for c in s):
            self.stat["str_unicode"] += 1
        if s == "":
            self.stat["str_empty"] += 1
        return s

    def gint(self, column=True):
        r = self.r
        x = r.random()
        if x < 0.5:
            return r.choice(INTS)
        if x < 0.9 or column:
            return r.randint(-10**6, 10**13)
        return r.choice(BIG_INTS)

    def gjson(self, depth=0, maxdepth=4):
        r = self.r
        self.stat["json_nodes"] += 1
        self.stat["json_depth_max"] = max(self.stat["json_depth_max"], depth)
        x = r.random()
        if depth >= maxdepth or x < 0.45:
            y = r.random()
            if y < 0.12:
                return None
            if y < 0.25:
                return r.random() < 0.5
            if y < 0.5:
                return self.gint(column=False)
            if y < 0.65:
                return r.choice(FLOATS) if r.random() < 0.7 else r.uniform(-1e6, 1e6)
            return self.gstr(json_only=True)
        if x < 0.72:
            return [self.gjson(depth + 1, maxdepth) for _ in range(r.choice([0, 0, 1, 2, 3, 5]))]
        return self.gdict(depth + 1, maxdepth)

    def gdict(self, depth=0, maxdepth=4, n=None):
        r = self.r
        n = r.choice([0, 0, 1, 2, 3, 6]) if n is None else n
        d = {}
        for _ in range(n):
            k = self.gstr(json_only=True)
            if k.startswith("$"):
                k = "k" + k
            d[k] = self.gjson(depth + 1, maxdepth)
        return d

    def opt(self, f, p_none=0.35):
        return None if self.r.random() < p_none else f()

    def task(self, j, n):
        r = self.r
        return {"name": self.gstr(), "implementing_class": self.gstr(), "status": E("WorkflowStatus", r.choice(self.members["WorkflowStatus"])),
                "start_time": self.opt(self.gint), "end_time": self.opt(self.gint),
                "stage_start": j == 0 if r.random() < 0.7 else r.random() < 0.5, "stage_end": j == n - 1 if r.random() < 0.7 else r.random() < 0.5,
                "loop_start": r.random() < 0.3, "loop_end": r.random() < 0.3,
                "task_exception_details": self.gdict() if r.random() < 0.6 else {}}

    def mi(self):
        r = self.r
        return {"$obj": ["MultiInstanceConfig", {
            "count": r.choice([0, 1, 3, 10**20]), "count_from_context": self.gstr(), "sync_on_complete": r.random() < 0.5,
            "allow_dynamic": r.random() < 0.5, "collection_from_context": self.gstr(), "join_threshold": r.choice([0, 1, 2]),
            "cancel_remaining": r.random() < 0.5}]}

    def stage(self, i, prev_refs):
        r = self.r
        join = r.choice(self.members["JoinType"])
        thr = r.choice([0, 0, 1, 2, 5, 10**6]) if join == "N_OF_M" else r.choice([0, 0, 1, -1, 3])
        reqs = sorted(set(r.sample(prev_refs, r.randint(0, len(prev_refs))) + ([self.gstr()] if r.random() < 0.15 else [])))
        f = {"ref_id": f"r{i}" + (self.gstr() if r.random() < 0.3 else ""), "type": self.gstr(), "name": self.gstr(),
             "status": E("WorkflowStatus", r.choice(self.members["WorkflowStatus"])),
             "context": self.gdict(), "outputs": self.gdict(),
             "requisite_stage_ref_ids": {"$set": reqs},
             "parent_stage_id": self.opt(self.gstr, 0.6),
             "synthetic_stage_owner": self.opt(lambda: E("SyntheticStageOwner", r.choice(self.members["SyntheticStageOwner"])), 0.5),
             "start_time": self.opt(self.gint), "end_time": self.opt(self.gint), "start_time_expiry": self.opt(self.gint),
             "scheduled_time": self.opt(self.gint), "version": r.choice([0, 0, 0, 1, 7, 2**40]),
             "join_type": E("JoinType", join), "join_threshold": thr,
             "split_type": E("SplitType", r.choice(self.members["SplitType"])),
             "split_conditions": {("k" + k if k.startswith("$") else k): self.gstr() for k in (self.gstr() for _ in range(r.choice([0, 0, 1, 3])))},
             "mi_config": self.opt(self.mi, 0.5),
             "deferred_choice_group": self.opt(self.gstr), "milestone_ref_id": self.opt(self.gstr),
             "milestone_status": self.opt(lambda: r.choice(self.members["WorkflowStatus"] + ["", "whatever"])),
             "mutex_key": self.opt(self.gstr), "cancel_region": self.opt(self.gstr)}
        if r.random() < 0.1:
            f["output_reducers"] = {"k": "sum"}
        if r.random() < 0.1:
            f["cleanup_on_failure"] = True
            f["finalizer_names"] = ["fin"]
        nt = r.choice([0, 1, 1, 2, 3, 4])
        return {"f": f, "tasks": [self.task(j, nt) for j in range(nt)]}

    def trigger(self):
        return {"$obj": ["Trigger", {"type": self.gstr(), "user": self.gstr(), "parameters": self.gdict(),
                                     "artifacts": [self.gdict() for _ in range(self.r.choice([0, 0, 1, 2]))], "payload": self.gdict()}]}

    def paused(self):
        return {"$obj": ["PausedDetails", {"paused_by": self.gstr(), "pause_time": self.opt(self.gint), "resume_time": self.opt(self.gint),
                                           "paused_ms": self.r.choice([0, 1, 10**15])}]}

    def workflow(self, nstages=None):
        r = self.r
        n = r.choice([1, 1, 2, 3, 4]) if nstages is None else nstages
        stages, refs = [], []
        for i in range(n):
            s = self.stage(i, refs)
            refs.append(s["f"]["ref_id"])
            stages.append(s)
        wf = {"type": E("WorkflowType", r.choice(self.members["WorkflowType"])), "application": self.gstr(), "name": self.gstr(),
              "status": E("WorkflowStatus", r.choice(self.members["WorkflowStatus"])), "context": self.gdict(),
              "trigger": self.trigger(), "start_time": self.opt(self.gint), "end_time": self.opt(self.gint),
              "start_time_expiry": self.opt(self.gint), "is_canceled": r.random() < 0.4, "canceled_by": self.opt(self.gstr),
              "cancellation_reason": self.opt(self.gstr), "paused": self.opt(self.paused, 0.5),
              "pipeline_config_id": self.opt(self.gstr), "is_limit_concurrent": r.random() < 0.4,
              "max_concurrent_executions": r.choice([0, 0, 1, 5, 2**40]), "keep_waiting_pipelines": r.random() < 0.4,
              "origin": self.gstr(nonempty=True)}
        if r.random() < 0.1:
            wf["config_version"] = "cfg"
        return {"wf": wf, "stages": stages}

    # ---- named corner cases of the valid stream ----
    def corners(self):
        out = []
        out.append(("all-defaults", {"wf": {}, "stages": [{"f": {"ref_id": "a"}, "tasks": [{}]}]}))
        for k, st in enumerate(self.members["WorkflowStatus"]):
            out.append((f"status-{st}", {"wf": {"status": E("WorkflowStatus", st)}, "stages": [
                {"f": {"ref_id": "a", "status": E("WorkflowStatus", st), "join_type": E("JoinType", self.members["JoinType"][k % len(self.members["JoinType"])]),
                       "split_type": E("SplitType", self.members["SplitType"][k % len(self.members["SplitType"])]),
                       "synthetic_stage_owner": E("SyntheticStageOwner", self.members["SyntheticStageOwner"][k % len(self.members["SyntheticStageOwner"])])},
                 "tasks": [{"status": E("WorkflowStatus", st)}]}]}))
        for wt in self.members["WorkflowType"]:
            out.append((f"type-{wt}", {"wf": {"type": E("WorkflowType", wt)}, "stages": []}))
        out.append(("empties", {"wf": {"application": "", "name": "", "context": {}, "canceled_by": "", "cancellation_reason": "",
                                       "pipeline_config_id": "", "max_concurrent_executions": 0, "start_time": 0,
                                       "trigger": {"$obj": ["Trigger", {"type": "", "user": "", "parameters": {}, "artifacts": [], "payload": {}}]},
                                       "paused": {"$obj": ["PausedDetails", {"paused_by": "", "pause_time": 0, "resume_time": 0, "paused_ms": 0}]}},
                                "stages": [{"f": {"ref_id": "", "type": "", "name": "", "context": {}, "outputs": {}, "requisite_stage_ref_ids": {"$set": []},
                                                  "parent_stage_id": "", "start_time": 0, "end_time": 0, "start_time_expiry": 0, "scheduled_time": 0,
                                                  "join_type": E("JoinType", "N_OF_M"), "join_threshold": 0, "split_conditions": {},
                                                  "mi_config": {"$obj": ["MultiInstanceConfig", {"count": 0, "count_from_context": "", "sync_on_complete": False,
                                                                                                 "allow_dynamic": False, "collection_from_context": "",
                                                                                                 "join_threshold": 0, "cancel_remaining": False}]},
                                                  "deferred_choice_group": "", "milestone_ref_id": "", "milestone_status": "", "mutex_key": "",
                                                  "cancel_region": ""},
                                            "tasks": [{"name": "", "implementing_class": "", "start_time": 0, "end_time": 0, "task_exception_details": {}}]}]}))
        deep = []
        for k in range(40):
            deep = [deep] if k % 2 else {"d": deep}
        out.append(("huge", {"wf": {"context": {"big": "x" * 200000, "list": list(range(3000)), "deep": deep, "int": 10**400, "u": "\U0001F600" * 5000}},
                             "stages": [{"f": {"ref_id": "a", "context": {"k" + str(i): i for i in range(1500)}, "outputs": {"s": "é" * 100000},
                                               "requisite_stage_ref_ids": {"$set": [f"r{i}" for i in range(300)]},
                                               "split_conditions": {f"b{i}": "x" * 100 for i in range(200)}, "name": "n" * 50000},
                                         "tasks": [{"name": f"t{i}", "task_exception_details": {"trace": "line\n" * 5000}} for i in range(12)]}]}))
        out.append(("int64-edges", {"wf": {"start_time": 2**63 - 1, "end_time": -2**63, "max_concurrent_executions": 2**63 - 1},
                                    "stages": [{"f": {"ref_id": "a", "start_time": 2**63 - 1, "end_time": -2**63, "version": 2**62, "join_threshold": 2**63 - 1},
                                                "tasks": [{"start_time": -2**63, "end_time": 2**63 - 1}]}]}))
        out.append(("floats-and-keys", {"wf": {"context": {"f": FLOATS, "1": 1, "": "", "a.b": {"c d": [[], {}, [{}]]}, "nested": {"None": None, "true": True}}},
                                        "stages": [{"f": {"ref_id": "a", "outputs": {"x": [0.1, -0.0, 1e300], "surrogate": "\ud800"}}, "tasks": []}]}))
        out.append(("reducers", {"wf": {}, "stages": [{"f": {"ref_id": "a", "output_reducers": {"total": "sum"}, "context": {"x": 1}}, "tasks": []}]}))
        return out

    # ---- inputs outside the wf predicate (model must still predict: raise / default / no claim) ----
    def invalid(self):
        out = []
        S = lambda **f: {"f": dict({"ref_id": "a"}, **f), "tasks": []}   # noqa: E731
        out.append(("stage-name-None", {"wf": {}, "stages": [S(name=None)]}))
        out.append(("wf-name-None", {"wf": {"name": None}, "stages": []}))
        out.append(("origin-empty", {"wf": {"origin": ""}, "stages": []}))
        out.append(("origin-None", {"wf": {"origin": None}, "stages": []}))
        out.append(("ref_id-None", {"wf": {}, "stages": [S(ref_id=None)]}))
        out.append(("application-None", {"wf": {"application": None}, "stages": []}))
        out.append(("version-overflow", {"wf": {}, "stages": [S(version=2**70)]}))
        out.append(("status-str", {"wf": {}, "stages": [S(status="RUNNING")]}))
        out.append(("join_threshold-None", {"wf": {}, "stages": [S(join_threshold=None)]}))
        out.append(("max_concurrent-None", {"wf": {"max_concurrent_executions": None}, "stages": []}))
        out.append(("name-int", {"wf": {}, "stages": [S(name=123)]}))
        out.append(("start_time-bool", {"wf": {}, "stages": [S(start_time=True)]}))
        out.append(("task-version-5", {"wf": {}, "stages": [{"f": {"ref_id": "a"}, "tasks": [{"version": 5}]}]}))
        out.append(("task-ids-descending", {"wf": {}, "stages": [{"f": {"ref_id": "a"}, "tasks": [{"id": "T3", "name": "first"}, {"id": "T1", "name": "second"},
                                                                                            {"id": "T2", "name": "third"}]}]}))
        out.append(("task-name-None", {"wf": {}, "stages": [{"f": {"ref_id": "a"}, "tasks": [{"name": None}]}]}))
        out.append(("is_canceled-int", {"wf": {"is_canceled": 2, "keep_waiting_pipelines": ""}, "stages": []}))
        out.append(("mi_config-wrong-class", {"wf": {}, "stages": [S(mi_config={"$obj": ["PausedDetails", {}]})]}))
        return out

    # ---- store_stage modifications ----
    def mods(self, ss):
        r = self.r
        fresh = self.stage(99, [])["f"]
        pool = ["status", "context", "outputs", "start_time", "end_time", "name", "type", "join_type", "join_threshold", "split_type",
                "split_conditions", "mi_config", "mutex_key", "cancel_region", "scheduled_time", "start_time_expiry", "parent_stage_id",
                "synthetic_stage_owner", "deferred_choice_group", "milestone_ref_id", "milestone_status", "requisite_stage_ref_ids"]
        k = r.choice([0, 1, 2, 3, 5, len(pool)])
        fields = {f: fresh[f] for f in r.sample(pool, k)}
        if fields.get("join_type") == E("JoinType", "N_OF_M") and "join_threshold" not in fields:
            fields["join_threshold"] = 1
        tmods = []
        for j in range(len(ss["tasks"])):
            if r.random() < 0.5:
                t = self.task(j, len(ss["tasks"]))
                tmods.append({"index": j, "fields": {f: t[f] for f in r.sample(sorted(t), r.randint(1, len(t)))}})
        new = [self.task(0, 1) for _ in range(r.choice([0, 0, 0, 1, 2]))]
        return {"fields": fields, "tasks": tmods, "new_tasks": new, "path": r.randrange(4)}

    # ---- messages ----
    def message(self, cls_name, cls):
        r = self.r
        fields = {}
        for f in dataclasses.fields(cls):
            if f.name in ("message_id", "created_at"):
                continue
            if r.random() < 0.25 and f.name not in ("status", "phase"):
                continue                       # keep the default
            t = str(f.type)
            if f.name in ("attempts", "max_attempts"):
                fields[f.name] = r.choice([0, 1, 3, 10])
            elif t == "str":
                fields[f.name] = self.gstr(json_only=True)
            elif t == "int":
                fields[f.name] = self.gint(column=False)
            elif t == "bool":
                fields[f.name] = r.random() < 0.5
            elif t == "str | None":
                fields[f.name] = self.opt(lambda: self.gstr(json_only=True))
            elif t.startswith("dict["):
                fields[f.name] = self.gdict()
            elif t == "WorkflowStatus":
                fields[f.name] = E("WorkflowStatus", r.choice(self.members["WorkflowStatus"]))
            elif t == "WorkflowStatus | None":
                fields[f.name] = self.opt(lambda: E("WorkflowStatus", r.choice(self.members["WorkflowStatus"])))
            elif t == "SyntheticStageOwner":
                fields[f.name] = E("SyntheticStageOwner", r.choice(self.members["SyntheticStageOwner"]))
            else:
                raise RuntimeError(f"message field {cls_name}.{f.name}: no generator for type {t}")
        return {"cls": cls_name, "fields": fields, "txn": r.random() < 0.5}


# ------------------------------------------------------------------------------------------------
# running a case on the implementation
# ------------------------------------------------------------------------------------------------

class Collector:
    def __init__(self):
        self.cases = {k: [] for k in ("workflow", "stage", "tasks", "raises", "update", "task_update", "msg")}
        self.meta = {k: [] for k in self.cases}
        self.violations: list[Violation] = []
        self.dist: dict = {}
        self.samples: list = []
        self.nontrivial = 0
        self.unprintable = 0

    def count(self, key, n=1):
        self.dist[key] = self.dist.get(key, 0) + n

    def add(self, kind, term, meta):
        self.cases[kind].append(term)
        self.meta[kind].append(meta)

    def violate(self, what, sig, replay):
        self.violations.append(Violation(what=what, signature=sig, replay=replay))


def short(v, n=80):
    s = repr(v)
    return s if len(s) <= n else s[:n] + f"…(+{len(s) - n})"


def run_workflow_case(impl: Impl, col: Collector, label, spec, valid):
    """store + retrieve + retrieve_stage; emits workflow / stage / tasks cases; returns the stored workflow or None"""
    replay = {"kind": "workflow", "label": label, "spec": spec}
    try:
        wf = impl.build_workflow(spec)
    except Exception as e:
        col.count("construct_raised")
        if valid:
            col.violate(f"valid workflow spec could not be constructed: {e!r}", "construct", replay)
        return None
    w_written = snap(wf, WF_SKIP)
    s_written = [snap(s, STAGE_SKIP, {"execution_id": wf.id}) for s in wf.stages]
    t_written = [[snap(t, TASK_SKIP, {"stage_id": s.id}) for t in s.tasks] for s in wf.stages]
    try:
        impl.store.store(wf)
        stored = True
    except Exception as e:
        impl.rollback()
        stored = False
        col.count("store_raised:" + type(e).__name__)
        if valid:
            col.violate(f"store() raised on a valid workflow: {e!r}", "store-raises", replay)
    got = None
    if stored:
        try:
            got = impl.store.retrieve(wf.id)
        except Exception as e:
            col.count("retrieve_raised:" + type(e).__name__)
            if valid:
                col.violate(f"retrieve() raised on a valid stored workflow: {e!r}", "retrieve-raises", replay)
    try:
        P = Printer()
        if not stored:
            # the model must say that one of the INSERTs raises: the workflow row or one of the stage / task rows
            rows = [f"(0%nat, {P.rec(w_written)})"] + [f"(1%nat, {P.rec(s)})" for s in s_written] \
                   + [f"(2%nat, {P.rec(t)})" for ts in t_written for t in ts]
            col.add("raises", "[" + "; ".join(rows) + "]", {"label": label})
            col.count("cases_store_raised")
            return None
        if got is None:
            return None
        col.add("workflow", f"({cqb(valid)}, {P.rec(w_written)}, {P.opt_rec(snap(got, WF_SKIP))})", {"label": label})
        by_id = {s.id: s for s in got.stages}
        if valid:
            for f in WORKFLOW_LISTED:
                if not same(w_written[f], getattr(got, f)):
                    col.violate(f"Workflow.{f} written {short(w_written[f])} read back {short(getattr(got, f))}", f"workflow.{f}", replay)
            if sorted(by_id) != sorted(s["id"] for s in s_written):
                col.violate("set of stages read back differs from the stages stored", "workflow.stages", replay)
        for s_w, t_w in zip(s_written, t_written):
            for via in ("retrieve", "retrieve_stage"):
                try:
                    s_o = by_id.get(s_w["id"]) if via == "retrieve" else impl.store.retrieve_stage(s_w["id"])
                except Exception as e:
                    s_o = None
                    col.count("retrieve_stage_raised:" + type(e).__name__)
                if s_o is None:
                    if valid:
                        col.violate(f"stage {s_w['ref_id']!r} not read back via {via}", f"stage.missing.{via}", replay)
                    continue
                Ps = Printer()
                col.add("stage", f"({cqb(valid)}, {Ps.rec(s_w)}, {Ps.opt_rec(snap(s_o, STAGE_SKIP))})", {"label": label, "via": via})
                t_o = [snap(t, TASK_SKIP) for t in s_o.tasks]
                Pt = Printer()
                col.add("tasks", f"({cqb(valid)}, {cqb(via == 'retrieve_stage')}, {Pt.recs(t_w)}, {Pt.opt_recs(t_o)})", {"label": label, "via": via})
                col.count("tasks_per_stage=%d" % len(t_w))
                if valid:
                    for f in STAGE_LISTED:
                        if not same(s_w[f], getattr(s_o, f)):
                            col.violate(f"StageExecution.{f} written {short(s_w[f])} read back {short(getattr(s_o, f))} (via {via})",
                                        f"stage.{f}", replay)
                    if [t["id"] for t in t_o] != [t["id"] for t in t_w]:
                        col.violate(f"tasks read back in order {[t['name'] for t in t_o]} but stored in order {[t['name'] for t in t_w]} (via {via})",
                                    "tasks.order", replay)
                    else:
                        for tw, to in zip(t_w, t_o):
                            for f in TASK_LISTED:
                                if not same(tw[f], to[f]):
                                    col.violate(f"TaskExecution.{f} written {short(tw[f])} read back {short(to[f])} (via {via})", f"task.{f}", replay)
    except Unprintable:
        col.unprintable += 1
    return wf if stored else None


def run_add_stage_case(impl: Impl, col: Collector, label, spec, extra, txn):
    """a stage that is not yet stored goes through the INSERT branch of store_stage (add_stage / txn.store_stage)"""
    replay = {"kind": "add_stage", "label": label, "spec": spec, "extra": extra, "txn": txn}
    try:
        wf = impl.build_workflow(spec)
        impl.store.store(wf)
        st = impl.build_stage(extra)
        st.execution = wf
    except Exception:
        impl.rollback()
        return
    s_w = snap(st, STAGE_SKIP, {"execution_id": wf.id})
    t_w = [snap(t, TASK_SKIP, {"stage_id": st.id}) for t in st.tasks]
    try:
        if txn:
            with impl.store.transaction(impl.queue) as tx:
                tx.store_stage(st)
        else:
            impl.store.add_stage(st)
        s_o = impl.store.retrieve_stage(st.id)
    except Exception as e:
        impl.rollback()
        col.violate(f"adding a valid new stage raised: {e!r}", "add_stage.raises", replay)
        return
    try:
        P = Printer()
        col.add("stage", f"(true, {P.rec(s_w)}, {P.opt_rec(snap(s_o, STAGE_SKIP))})", {"label": label, "via": "add_stage-txn" if txn else "add_stage"})
        Pt = Printer()
        col.add("tasks", f"(true, true, {Pt.recs(t_w)}, {Pt.opt_recs([snap(t, TASK_SKIP) for t in s_o.tasks])})", {"label": label, "via": "add_stage"})
    except Unprintable:
        col.unprintable += 1
    for f in STAGE_LISTED:
        if not same(s_w[f], getattr(s_o, f)):
            col.violate(f"StageExecution.{f} written {short(s_w[f])} read back {short(getattr(s_o, f))} (new stage saved with "
                        f"{'txn.store_stage' if txn else 'add_stage'})", f"stage.{f}", replay)
    if [t.id for t in s_o.tasks] != [t["id"] for t in t_w]:
        col.violate("tasks of a newly added stage read back in a different order", "tasks.order", replay)
    else:
        for tw, to in zip(t_w, s_o.tasks):
            for f in TASK_LISTED:
                if not same(tw[f], getattr(to, f)):
                    col.violate(f"TaskExecution.{f} written {short(tw[f])} read back {short(getattr(to, f))} (new stage)", f"task.{f}", replay)
    # the stages stored before are untouched
    for other in wf.stages:
        o_after = impl.store.retrieve_stage(other.id)
        for f in STAGE_LISTED:
            if not same(getattr(other, f), getattr(o_after, f)):
                col.violate(f"adding a stage altered {f} of another stage", f"update.other.{f}", replay)


def apply_mods(impl: Impl, stage, mods):
    for f, v in mods["fields"].items():
        setattr(stage, f, impl.dec(v))
    for tm in mods["tasks"]:
        if tm["index"] < len(stage.tasks):
            for f, v in tm["fields"].items():
                setattr(stage.tasks[tm["index"]], f, impl.dec(v))
    for ts in mods["new_tasks"]:
        t = impl.build_task(ts)
        t.stage = stage
        stage.tasks.append(t)


def run_update_case(impl: Impl, col: Collector, label, spec, stage_index, mods, valid=True, stale=False, bad_phase=False):
    replay = {"kind": "update", "label": label, "spec": spec, "stage_index": stage_index, "mods": mods, "stale": stale, "bad_phase": bad_phase}
    try:
        wf = impl.build_workflow(spec)
        impl.store.store(wf)
    except Exception:
        impl.rollback()
        return
    sid = wf.stages[stage_index].id
    s_stored = snap(wf.stages[stage_index], STAGE_SKIP, {"execution_id": wf.id})
    t_stored = [snap(t, TASK_SKIP, {"stage_id": sid}) for t in wf.stages[stage_index].tasks]
    before = impl.store.retrieve_stage(sid)
    before_snap = snap(before, STAGE_SKIP)
    caller = impl.store.retrieve_stage(sid)
    apply_mods(impl, caller, mods)
    if stale:
        caller.version += 3
    path = mods["path"]
    phase = None
    if path % 2 == 1:
        phase = before.status.name if not bad_phase else ("RUNNING" if before.status.name != "RUNNING" else "SUCCEEDED")
    s_caller = snap(caller, STAGE_SKIP, {"execution_id": wf.id, "expected_phase": phase} if phase is not None else {"execution_id": wf.id})
    t_caller = [snap(t, TASK_SKIP, {"stage_id": sid}) for t in caller.tasks]
    raised = None
    try:
        if path < 2:
            impl.store.store_stage(caller, expected_phase=phase) if phase is not None else impl.store.store_stage(caller)
        else:
            with impl.store.transaction(impl.queue) as txn:
                txn.store_stage(caller, expected_phase=phase) if phase is not None else txn.store_stage(caller)
    except Exception as e:
        impl.rollback()
        raised = e
        col.count("store_stage_raised:" + type(e).__name__)
    expect_ok = valid and not stale and not bad_phase
    if raised is not None and expect_ok:
        col.violate(f"store_stage raised on an unchanged-version stage: {raised!r}", "update.raises", replay)
        return
    try:
        after = impl.store.retrieve_stage(sid)
    except Exception as e:
        if expect_ok:
            col.violate(f"retrieve_stage raised after store_stage: {e!r}", "update.retrieve-raises", replay)
        return
    try:
        P = Printer()
        obs = None if raised is not None else snap(after, STAGE_SKIP)
        col.add("update", f"({cqb(expect_ok)}, {path}%nat, {P.rec(s_stored)}, {P.rec(s_caller)}, {P.opt_rec(obs)})", {"label": label, "path": path})
        col.count(f"update_path={path}")
        col.count("update_fields_changed=%d" % len(mods["fields"]))
        if raised is None:
            Pt = Printer()
            t_after = [snap(t, TASK_SKIP) for t in after.tasks]
            col.add("task_update", f"({cqb(expect_ok)}, {Pt.recs(t_stored)}, {Pt.recs(t_caller)}, {Pt.opt_recs(t_after)})", {"label": label, "path": path})
    except Unprintable:
        col.unprintable += 1
    if raised is not None:
        # a refused save must leave the stage as it was
        for f in STAGE_LISTED:
            if not same(before_snap[f], getattr(after, f)):
                col.violate(f"a refused store_stage changed StageExecution.{f}", f"update.refused.{f}", replay)
        return
    if expect_ok:
        for f in STAGE_FRAME:
            if not same(before_snap[f], getattr(after, f)):
                col.violate(f"store_stage altered StageExecution.{f}: before {short(before_snap[f])} after {short(getattr(after, f))} "
                            f"(caller changed {sorted(mods['fields'])}, path {path})", f"update.frame.{f}", replay)
        for f in STAGE_UPDATED:
            if not same(s_caller[f], getattr(after, f)):
                col.violate(f"store_stage did not persist StageExecution.{f}: caller {short(s_caller[f])} read back {short(getattr(after, f))} (path {path})",
                            f"update.written.{f}", replay)
        if after.version != before_snap["version"] + 1:
            col.violate(f"store_stage: version {before_snap['version']} -> {after.version}", "update.version", replay)
        t_after = {t.id: t for t in after.tasks}
        for tc in t_caller:
            to = t_after.get(tc["id"])
            if to is None:
                col.violate("a task of the saved stage is missing after store_stage", "update.task.missing", replay)
                continue
            for f in TASK_UPDATED:
                if not same(tc[f], getattr(to, f)):
                    col.violate(f"store_stage did not persist TaskExecution.{f}: caller {short(tc[f])} read back {short(getattr(to, f))}",
                                f"update.task.{f}", replay)
        # other stages of the workflow are untouched
        for other in wf.stages:
            if other.id != sid:
                o_after = impl.store.retrieve_stage(other.id)
                for f in STAGE_LISTED:
                    if not same(getattr(other, f), getattr(o_after, f)):
                        col.violate(f"store_stage of one stage altered {f} of another stage", f"update.other.{f}", replay)


def run_message_case(impl: Impl, col: Collector, spec, valid=True):
    replay = {"kind": "message", "spec": spec}
    try:
        m = impl.build_message(spec)
    except Exception as e:
        if valid:
            col.violate(f"valid message spec could not be constructed: {e!r}", "message.construct", replay)
        return
    written = copy.deepcopy(dict(m.__dict__))
    cls_name = type(m).__name__
    impl.queue.clear()
    got, raised = None, None
    try:
        if spec["txn"]:
            with impl.store.transaction(impl.queue) as txn:
                txn.push_message(m)
        else:
            impl.queue.push(m)
        got = impl.queue.poll_one()
    except Exception as e:
        impl.rollback()
        raised = e
        col.count("message_raised:" + type(e).__name__)
    try:
        P = Printer()
        obs = "None" if got is None else f"(Some {P.msg(type(got).__name__, dict(got.__dict__))})"
        col.add("msg", f"({cqb(valid)}, {cqb(spec['txn'])}, {P.msg(cls_name, written)}, {obs})", {"cls": cls_name, "txn": spec["txn"]})
    except Unprintable:
        col.unprintable += 1
    col.count(f"msg:{cls_name}:{'txn' if spec['txn'] else 'push'}")
    if valid:
        if got is None:
            col.violate(f"{cls_name} pushed ({'transaction' if spec['txn'] else 'queue.push'}) but not delivered: {raised!r}", f"message.{cls_name}.lost", replay)
            return
        if type(got) is not type(m):
            col.violate(f"{cls_name} delivered as {type(got).__name__}", f"message.{cls_name}.type", replay)
            return
        for f, v in written.items():
            if f in MSG_METADATA:
                continue
            if not same(v, getattr(got, f, "<missing>")):
                col.violate(f"{cls_name}.{f} pushed {short(v)} delivered {short(getattr(got, f, '<missing>'))} "
                            f"({'transaction' if spec['txn'] else 'queue.push'})", f"message.{cls_name}.{f}", replay)
    if got is not None:
        try:
            impl.queue.ack(got)
        except Exception:
            pass


def invalid_messages():
    return [
        {"cls": "CompleteTask", "fields": {"status": "TERMINAL"}, "txn": False},            # a str: comes back as the enum
        {"cls": "CompleteTask", "fields": {"status": "NO_SUCH_STATUS"}, "txn": True},       # KeyError in deserialize
        {"cls": "CompleteTask", "fields": {"original_status": "RUNNING"}, "txn": False},
        {"cls": "ContinueParentStage", "fields": {"phase": "STAGE_BEFORE"}, "txn": True},
        {"cls": "StartStage", "fields": {"stage_id": None}, "txn": False},
        {"cls": "StageLevel", "fields": {"stage_id": "base class is not registered"}, "txn": False},
    ]


# ------------------------------------------------------------------------------------------------
# the check
# ------------------------------------------------------------------------------------------------

REQ = "From Stab.model Require Import CodecT Codec MsgCodec CodecSpec CodecCheck.\nOpen Scope string_scope."
CHECKS = {
    "workflow": ("check_workflow", "bool * record * option record"),
    "stage": ("check_stage", "bool * record * option record"),
    "tasks": ("check_tasks", "bool * bool * list record * option (list record)"),
    "raises": ("check_store_raises", "list (nat * record)"),
    "update": ("check_update", "bool * nat * record * record * option record"),
    "task_update": ("check_task_update", "bool * list record * list record * option (list record)"),
    "msg": ("check_msg", "bool * bool * msg * option msg"),
}


def generate_and_run(rng, tier, col: Collector, scale=1.0):
    impl = Impl()
    try:
        g = Gen(rng, impl)
        n_wf = int((60 if tier == "quick" else 500) * scale)
        n_upd = int((70 if tier == "quick" else 600) * scale)
        n_msg_per_class = max(1, int((5 if tier == "quick" else 40) * scale))
        # valid stream: named corners first, then random
        specs = g.corners() + [(f"random-{i}", g.workflow()) for i in range(n_wf)]
        for label, spec in specs:
            wf = run_workflow_case(impl, col, label, spec, valid=True)
            col.count("valid_workflows")
            col.count("stages", len(spec["stages"]))
            col.count("tasks", sum(len(s.get("tasks", [])) for s in spec["stages"]))
            if wf is not None and (spec["wf"] or any(len(s["f"]) > 1 for s in spec["stages"])):
                col.nontrivial += 1
            if len(col.samples) < 3 and label.startswith("random"):
                js = json.dumps(spec)
                col.samples.append({"kind": "workflow", "label": label,
                                    "spec": spec if len(js) < 1500 else {"wf_fields": sorted(spec["wf"]), "stages": len(spec["stages"]), "json_chars": len(js)}})
        for label, spec in g.invalid():
            run_workflow_case(impl, col, label, spec, valid=False)
            col.count("invalid_workflows")
        # store_stage
        for i in range(n_upd):
            spec = g.workflow(nstages=rng.choice([1, 2, 3]))
            k = rng.randrange(len(spec["stages"]))
            mods = g.mods(spec["stages"][k])
            run_update_case(impl, col, f"update-{i}", spec, k, mods)
            col.count("update_cases")
            col.nontrivial += 1 if mods["fields"] or mods["tasks"] or mods["new_tasks"] else 0
        for i in range(8):
            spec = g.workflow(nstages=1)
            mods = g.mods(spec["stages"][0])
            if i % 2 == 1:
                mods["path"] |= 1                       # a wrong expected_phase needs a path that passes one
            run_update_case(impl, col, f"update-refused-{i}", spec, 0, mods, stale=i % 2 == 0, bad_phase=i % 2 == 1)
            col.count("update_refused_cases")
        for i in range(max(6, n_upd // 6)):
            spec = g.workflow(nstages=rng.choice([0, 1, 2]))
            extra = g.stage(50 + i, [x["f"]["ref_id"] for x in spec["stages"]])
            run_add_stage_case(impl, col, f"add-stage-{i}", spec, extra, txn=i % 2 == 1)
            col.count("add_stage_cases")
            col.nontrivial += 1
        # messages: every concrete class, both paths
        for cls_name, cls in impl.concrete_message_classes():
            for j in range(n_msg_per_class):
                spec = g.message(cls_name, cls)
                if j < 2:
                    spec["txn"] = bool(j)
                run_message_case(impl, col, spec)
                col.count("valid_messages")
                col.nontrivial += 1
                if len(col.samples) < 5 and j == 0 and cls_name in ("CompleteTask", "JumpToStage"):
                    col.samples.append({"kind": "message", "spec": spec if len(json.dumps(spec)) < 800 else {"cls": cls_name}})
        for spec in invalid_messages():
            run_message_case(impl, col, spec, valid=False)
            col.count("invalid_messages")
        col.dist.update({"gen_" + k: v for k, v in g.stat.items()})
        col.dist["enum_members"] = {k: len(v) for k, v in g.members.items()}
        col.dist["message_classes"] = len(impl.concrete_message_classes())
    finally:
        impl.close()


def notes_non_representable() -> list[str]:
    """what happens OUTSIDE the JSON-representable values (recorded, never judged)"""
    impl = Impl()
    out = []
    try:
        wf = impl.build_workflow({"wf": {"origin": "", "config_version": "v1"}, "stages": [
            {"f": {"ref_id": "a", "context": {"t": {"$tuple": [1, 2]}, "d": {"$dict": [[1, "x"]]}}, "cleanup_on_failure": True, "finalizer_names": ["f"]},
             "tasks": []}]})
        impl.store.store(wf)
        got = impl.store.retrieve(wf.id)
        s = got.stages[0]
        out.append(f"outside wf (observed on the implementation): tuple (1, 2) read back as {s.context['t']!r}; dict key 1 read back as "
                   f"{list(s.context['d'])!r}; origin '' read back as {got.origin!r}; not persisted: config_version {got.config_version!r}, "
                   f"cleanup_on_failure {s.cleanup_on_failure!r}, finalizer_names {s.finalizer_names!r}")
    except Exception as e:
        out.append(f"non-representable probe raised {e!r}")
    finally:
        impl.close()
    return out


def evaluate_in_coq(col: Collector, res: RunResult):
    from concurrent.futures import ThreadPoolExecutor
    req = REQ + "\n" + Printer.known_defs()
    jobs = {kind: (fn, ty, col.cases[kind]) for kind, (fn, ty) in CHECKS.items() if col.cases[kind]}

    def one(kind):
        fn, ty, cases = jobs[kind]
        return lib.coq_failing_indices(req, fn, ty, cases, f"c19_{kind}_{os.getpid()}", shard=40 if kind in ("workflow", "stage", "update") else 80, timeout=900)
    with ThreadPoolExecutor(max_workers=len(jobs) or 1) as ex:
        results = dict(zip(jobs, ex.map(one, jobs)))
    for kind, (failing, err) in results.items():
        cases = jobs[kind][2]
        if err:
            res.disagreements.append({"what": f"model evaluation failed ({kind})", "detail": err[:900]})
        for i in failing[:6]:
            res.disagreements.append({"what": f"model prediction differs from the implementation ({kind})", "meta": col.meta[kind][i],
                                      "case": cases[i][:700]})
        res.distribution[f"coq_cases_{kind}"] = len(cases)
        res.distribution[f"coq_failing_{kind}"] = len(failing)


def run(ctx) -> RunResult:
    t0 = time.time()
    res = RunResult(rule="non-trivial = stored workflow with at least one non-default field, store_stage case that changes at least one "
                         "field or task, or a message instance; every case is evaluated on the implementation AND inside Coq")
    col = Collector()
    generate_and_run(ctx.rng, ctx.tier, col)
    # smallest failing input first (the driver keeps the first violation of each signature)
    res.violations = sorted(col.violations, key=lambda v: len(json.dumps(v.replay, default=str)))
    res.distribution = dict(col.dist)
    res.samples = col.samples
    res.distinct_nontrivial = col.nontrivial
    res.evaluations = sum(len(v) for v in col.cases.values())
    res.traces_validated = res.evaluations
    if col.unprintable:
        res.notes.append(f"{col.unprintable} cases could not be printed as Coq terms and were compared on the implementation only")
    if ctx.build is not None and not ctx.build.ok and not (lib.COQ / "model" / "CodecCheck.vo").exists():
        res.disagreements.append({"what": "model does not compile against the regenerated lists; correspondence cannot run the model"})
    else:
        evaluate_in_coq(col, res)
    res.notes += notes_non_representable()
    res.notes.append("fields compared: stage %d, task %d, workflow %d listed fields; store_stage: %d frame fields must not change, %d written"
                     % (len(STAGE_LISTED), len(TASK_LISTED), len(WORKFLOW_LISTED), len(STAGE_FRAME), len(STAGE_UPDATED)))
    res.extra["correspondence_wall_s"] = round(time.time() - t0, 1)
    return res


def search(ctx, broken):
    """a proof or the correspondence broke and the run's monitors found nothing: look harder on the implementation"""
    import random
    col = Collector()
    for k in range(3):
        generate_and_run(random.Random(ctx.seed * 7919 + k + 1), "thorough" if ctx.tier == "thorough" else "quick", col, scale=2.0)
        if col.violations:
            break
    return sorted(col.violations, key=lambda v: len(json.dumps(v.replay, default=str)))


def replay(obj) -> bool:
    r = obj["replay"]
    impl = Impl()
    col = Collector()
    try:
        if r["kind"] == "workflow":
            run_workflow_case(impl, col, r.get("label", "replay"), r["spec"], valid=True)
        elif r["kind"] == "update":
            run_update_case(impl, col, r.get("label", "replay"), r["spec"], r["stage_index"], r["mods"], stale=r.get("stale", False),
                            bad_phase=r.get("bad_phase", False))
        elif r["kind"] == "message":
            run_message_case(impl, col, r["spec"])
        elif r["kind"] == "add_stage":
            run_add_stage_case(impl, col, r.get("label", "replay"), r["spec"], r["extra"], r["txn"])
        else:
            raise ValueError(r["kind"])
    finally:
        impl.close()
    for v in col.violations:
        print("  ", v.what[:300])
    return not col.violations
