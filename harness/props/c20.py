"""C20 — graph validation and condition expressions are sound and total.

Proofs: coq/props/C20.v over coq/model/Graph.v (validate_stage_graph, topological_sort,
get_execution_layers) and coq/model/Expr.v (evaluate_expression / _eval_node) + the try/except shape
of the two callers (coq/gen/Gen_ExprCallers.v, regenerated from the source by harness/tr/exprcallers.py).

Correspondence (every invocation, model definitions evaluated inside Coq by vm_compute):
  graphs   named corner cases + random DAGs with injected defects (duplicate ref, self edge, unknown
           ref, back edge, synthetic stages, and pairs of those to pin the error precedence) +
           exhaustive small scope; against Workflow.create, validate_stage_graph, topological_sort,
           topological_sort_all_stages, get_execution_layers.  The Python iterates a *set* of ULID
           strings, so the order inside one Kahn layer is arbitrary: orders are compared layer by
           layer as sets (exact otherwise).
  exprs    a grammar over every supported and unsupported construct and a palette of 30 context
           values + literals (all single-operator forms over all operand pairs in thorough, a sample
           in quick; random deeper terms; a raw malformed-text stream).  Each text is parsed with
           Python's own ast.parse and the *real parse tree* is converted into the model AST; both
           sides are evaluated and the canonicalised outcomes (value / ExpressionError / crash kind)
           compared, together with the decisions of the two real callers.
Implementation-side monitors: Workflow.create accepts exactly the valid graphs (validity decided by an
independent DFS), returned orders are permutations listing requisites first; evaluate_expression
never raises anything but ExpressionError, never mutates the context, never calls a context callable;
the callers never raise.

The unchanged tree violates totality (F5): four exception kinds escape.  They are reported with the
signatures listed in known_findings.d/C20.json; run() probes the witnesses first and compares against
the model configuration (cfg) that matches what the implementation currently does, so that after
fixes/C20-expr-total.diff is applied the same check passes with no known finding.
"""
from __future__ import annotations

import ast
import itertools
import logging
import sys
import traceback

from harness import lib
from harness.lib import RunResult, Violation

PID = "C20"
COQ_TARGETS = ["props/C20.vo"]
THEOREMS = [
    "Stab.props.C20.C20_validate_iff",
    "Stab.props.C20.C20_validate_error_kind",
    "Stab.props.C20.C20_struct_error_first",
    "Stab.props.C20.C20_order_sound",
    "Stab.props.C20.C20_acyclic_iff_no_cycle",
    "Stab.props.C20.C20_total_fixed",
    "Stab.props.C20.C20_total_refuted",
    "Stab.props.C20.C20_total_needs_all_fixes",
    "Stab.props.C20.C20_no_effects",
    "Stab.props.C20.C20_budget_monotone",
    "Stab.props.C20.C20_budget_suffices",
    "Stab.props.C20.C20_callers",
    "Stab.props.C20.C20_callers_total_fixed",
    "Stab.props.C20.C20_callers_refuted",
]
TRUSTED_BASE = [
    "ast.parse (text -> AST) is not modelled: its outcome on the stripped text is an input of the model "
    "(Parsed e | SyntaxError | crash kind); C20_total_fixed assumes it raises only SyntaxError, ValueError "
    "(incl. UnicodeEncodeError), RecursionError or MemoryError (premise parse_catchable)",
    "CPython's recursion limit is an abstract budget `rl` in the model (every _eval_node call consumes one); "
    "cases whose outcome on either side is RecursionError are not compared",
    "object identity (`is`) of two non-singleton values is an arbitrary function `ident` in the model "
    "(theorems hold for every ident); the correspondence accepts either answer",
    "CPython comparison / hashing / negation semantics on None, bool, int, str, list, tuple, dict are written "
    "out in coq/model/Expr.v and sampled by the correspondence; float, complex, bytes, Ellipsis constants are "
    "outside the model (monitored on the implementation only)",
    "harness conversion of Python's parse tree into the model AST (harness/props/c20.py:conv)",
]
ASSUMPTIONS = [
    "StageExecution.id values are pairwise distinct (topological_sort keys its bookkeeping on them)",
    "context keys are strings; dict keys inside context values are hashable and pairwise unequal",
    "values compared are finite and shallow enough for CPython's C-level comparison recursion",
]

KNOWN = {
    "expr:TypeError:UnaryOp-USub",
    "expr:TypeError:Subscript-unhashable-key",
    "expr:RecursionError",
    "expr:ValueError:parse",
}

# =================================================================================================
# Coq printers
# =================================================================================================

class OutOfDomain(Exception):
    pass


def cq_codes(s: str) -> str:
    return "[" + "; ".join(str(ord(ch)) for ch in s) + "]"


def cq_val(v) -> str:
    if v is None:
        return "VNone"
    t = type(v)
    if t is bool:
        return "(VBool true)" if v else "(VBool false)"
    if t is int:
        return f"(VInt ({v}))"
    if t is str:
        return f"(VStr {cq_codes(v)})"
    if t is list:
        return "(VList [" + "; ".join(cq_val(x) for x in v) + "])"
    if t is tuple:
        return "(VTuple [" + "; ".join(cq_val(x) for x in v) + "])"
    if t is dict:
        return "(VDict [" + "; ".join(f"({cq_val(k)}, {cq_val(x)})" for k, x in v.items()) + "])"
    raise OutOfDomain(t.__name__)


def canon(v):
    """type-exact canonical form (True != 1 here), used to detect context mutation"""
    if v is None:
        return ("n",)
    t = type(v)
    if t in (bool, int, str, float, complex, bytes):
        return (t.__name__, v)
    if t is list:
        return ("l", tuple(canon(x) for x in v))
    if t is tuple:
        return ("t", tuple(canon(x) for x in v))
    if t is dict:
        return ("d", tuple((canon(k), canon(x)) for k, x in v.items()))
    return ("o", id(v))


def deep_copy(v):
    t = type(v)
    if t is list:
        return [deep_copy(x) for x in v]
    if t is tuple:
        return tuple(deep_copy(x) for x in v)
    if t is dict:
        return {deep_copy(k): deep_copy(x) for k, x in v.items()}
    return v


_CMP = {ast.Eq: "CEq", ast.NotEq: "CNotEq", ast.Lt: "CLt", ast.LtE: "CLtE", ast.Gt: "CGt", ast.GtE: "CGtE",
        ast.Is: "CIs", ast.IsNot: "CIsNot", ast.In: "CIn", ast.NotIn: "CNotIn"}


def conv(n: ast.AST) -> str:
    """Python parse tree -> term of Stab.model.Expr.expr (anything not whitelisted -> EOther)."""
    if isinstance(n, ast.Constant):
        v = n.value
        if v is None or type(v) in (bool, int, str):
            return f"(EConst {cq_val(v)})"
        raise OutOfDomain(type(v).__name__)
    if isinstance(n, ast.Name):
        return f"(EName {cq_codes(n.id)})"
    if isinstance(n, ast.Attribute):
        return f"(EAttr {conv(n.value)} {cq_codes(n.attr)})"
    if isinstance(n, ast.Subscript):
        return f"(ESub {conv(n.value)} {conv(n.slice)})"
    if isinstance(n, ast.Compare):
        rest = "; ".join(f"({_CMP[type(o)]}, {conv(c)})" for o, c in zip(n.ops, n.comparators))
        return f"(ECompare {conv(n.left)} [{rest}])"
    if isinstance(n, ast.BoolOp):
        op = "BAnd" if isinstance(n.op, ast.And) else "BOr"
        return f"(EBoolOp {op} [" + "; ".join(conv(v) for v in n.values) + "])"
    if isinstance(n, ast.UnaryOp):
        op = "UNot" if isinstance(n.op, ast.Not) else "UUSub" if isinstance(n.op, ast.USub) else "UOther"
        return f"(EUnary {op} {conv(n.operand)})"
    if isinstance(n, ast.IfExp):
        return f"(EIf {conv(n.test)} {conv(n.body)} {conv(n.orelse)})"
    if isinstance(n, ast.List):
        return "(EList [" + "; ".join(conv(e) for e in n.elts) + "])"
    if isinstance(n, ast.Tuple):
        return "(ETuple [" + "; ".join(conv(e) for e in n.elts) + "])"
    return "EOther"


def ast_depth(tree: ast.AST) -> int:
    best, stack = 0, [(tree, 1)]
    while stack:
        n, d = stack.pop()
        best = max(best, d)
        for c in ast.iter_child_nodes(n):
            stack.append((c, d + 1))
    return best


def is_ops_dynamic(tree: ast.AST) -> int:
    """number of is / is-not operators neither operand of which is a None/True/False literal (or the
    names true/false/none/null): only those consult the identity oracle on non-singletons"""
    def single(e):
        if isinstance(e, ast.Constant) and (e.value is None or type(e.value) is bool):
            return True
        return isinstance(e, ast.Name) and e.id in ("true", "false", "none", "null", "True", "False", "None")
    k = 0
    for n in ast.walk(tree):
        if isinstance(n, ast.Compare):
            left = n.left
            for o, c in zip(n.ops, n.comparators):
                if isinstance(o, (ast.Is, ast.IsNot)) and not single(left) and not single(c):
                    k += 1
                left = c
    return k


# =================================================================================================
# implementation side: expressions
# =================================================================================================

_BRANCHES = None


def _branch_map():
    """line ranges of the `if isinstance(node, ast.X)` blocks of _eval_node in the *current* source"""
    global _BRANCHES
    if _BRANCHES is None:
        _BRANCHES = []
        try:
            mod = ast.parse((lib.SRC / "expressions.py").read_text())
            for f in mod.body:
                if isinstance(f, ast.FunctionDef) and f.name == "_eval_node":
                    for st in f.body:
                        if isinstance(st, ast.If):
                            names = [a.attr for a in ast.walk(st.test) if isinstance(a, ast.Attribute)
                                     and isinstance(a.value, ast.Name) and a.value.id == "ast"]
                            if names:
                                _BRANCHES.append((st.lineno, st.end_lineno, names[0]))
                if isinstance(f, ast.FunctionDef) and f.name == "evaluate_expression":
                    _BRANCHES.append((f.lineno, f.end_lineno, "parse"))
        except Exception:
            pass
    return _BRANCHES


def classify_crash(e: BaseException) -> tuple[str, str]:
    """(model crash constructor, signature)"""
    where = "unknown"
    for fr in reversed(traceback.extract_tb(e.__traceback__)):      # innermost frame that is inside a known block
        if fr.filename.endswith("expressions.py"):
            hit = [nm for lo, hi, nm in _branch_map() if lo <= fr.lineno <= hi]
            if hit:
                where = hit[0]
                break
    name = type(e).__name__
    if isinstance(e, RecursionError):
        return "CrRecursion", "expr:RecursionError"
    if isinstance(e, MemoryError):
        return "CrMemory", "expr:MemoryError"
    if isinstance(e, TypeError) and where == "UnaryOp":
        return "CrTypeUSub", "expr:TypeError:UnaryOp-USub"
    if isinstance(e, TypeError) and where == "Subscript" and "unhashable" in str(e):
        return "CrTypeUnhashable", "expr:TypeError:Subscript-unhashable-key"
    if isinstance(e, ValueError) and where == "parse":
        return "CrValue", "expr:ValueError:parse"
    return "CrOther", f"expr:{name}:{where}"


class Impl:
    """the real evaluate_expression and its two real callers, set up once"""

    def __init__(self):
        lib.ensure_repo_on_path()
        from stabilize import expressions
        from stabilize.handlers.complete_stage.split_logic import CompleteStagesSplitMixin
        from stabilize.handlers.start_stage.conditions import StartStageConditionsMixin
        from stabilize.models.stage import SplitType, StageExecution
        from stabilize.models.workflow import Workflow
        self.ev = expressions.evaluate_expression
        self.ExpressionError = expressions.ExpressionError
        self.split_h = type("SplitH", (CompleteStagesSplitMixin,), {})()
        self.skip_h = type("SkipH", (StartStageConditionsMixin,), {})()
        self.a = StageExecution(ref_id="A", name="A", split_type=SplitType.OR)
        self.b = StageExecution(ref_id="B", name="B", requisite_stage_ref_ids={"A"})
        self.c = StageExecution(ref_id="C", name="C", requisite_stage_ref_ids={"A"})
        self.wf = Workflow.create("app", "wf", [self.a, self.b, self.c])   # keeps the weak back-references alive

    def outcome(self, fn):
        try:
            v = fn()
        except self.ExpressionError:
            return ("err",)
        except Exception as e:  # noqa: BLE001 - every other exception is what the property forbids
            k, sig = classify_crash(e)
            return ("crash", k, sig, f"{type(e).__name__}: {str(e)[:120]}")
        return ("val", v)

    def evaluate(self, src, ctx):
        c = deep_copy(ctx)
        before = canon(c)
        out = self.outcome(lambda: self.ev(src, c))
        return out, canon(c) == before

    def split(self, src, ctx):
        """decision of _apply_split_logic for downstream B whose condition is src"""
        self.a.context = deep_copy(ctx)
        self.a.outputs = {}
        self.a.split_conditions = {"B": src}
        try:
            act, skp = self.split_h._apply_split_logic(self.a, [self.b, self.c])
        except self.ExpressionError:
            return ("raises-expr",)
        except Exception as e:  # noqa: BLE001
            k, sig = classify_crash(e)
            return ("raises", k, sig, f"{type(e).__name__}: {str(e)[:120]}")
        if self.b in act and self.b not in skp:
            return ("dec", "Activate")
        if self.b in skp and self.b not in act:
            return ("dec", "SkipBranch")
        return ("dec", "?")

    def skip(self, src, ctx):
        c = deep_copy(ctx)
        c["stageEnabled"] = {"type": "expression", "expression": src}
        self.b.context = c
        try:
            r = self.skip_h._should_skip(self.b)
        except self.ExpressionError:
            return ("raises-expr",)
        except Exception as e:  # noqa: BLE001
            k, sig = classify_crash(e)
            return ("raises", k, sig, f"{type(e).__name__}: {str(e)[:120]}")
        return ("dec", bool(r)) if isinstance(r, bool) else ("dec", "?")


def parse_outcome(src: str):
    """what ast.parse does on the stripped text (harness side, same function the implementation calls):
    (coq term | None when outside the model, depth, dynamic-is count, kind)"""
    s = src.strip()
    try:
        tree = ast.parse(s, mode="eval")
    except SyntaxError:
        return "PSyntaxError", 0, 0, "syntax-error"
    except RecursionError:
        return "(PCrash CrRecursion)", 10 ** 6, 0, "parse-recursion"
    except MemoryError:
        return "(PCrash CrMemory)", 0, 0, "parse-memory"
    except ValueError:
        return "(PCrash CrValue)", 0, 0, "parse-valueerror"
    except Exception:  # noqa: BLE001
        return "(PCrash CrOther)", 0, 0, "parse-other"
    depth = ast_depth(tree.body)
    if depth > 400:
        return None, depth, 0, "too-deep-for-model"
    old = sys.getrecursionlimit()
    sys.setrecursionlimit(20000)
    try:
        term = conv(tree.body)
        dyn = is_ops_dynamic(tree.body)
    except OutOfDomain:
        return None, depth, 0, "constant-outside-model"
    finally:
        sys.setrecursionlimit(old)
    return f"(Parsed {term})", depth, dyn, "parsed"


def cq_result(out) -> str | None:
    if out[0] == "err":
        return "Err"
    if out[0] == "crash":
        return f"(Crash {out[1]})"
    try:
        return f"(Ok {cq_val(out[1])})"
    except OutOfDomain:
        return None


def cq_split(o) -> str:
    if o[0] == "dec":
        return f"(Decided {o[1]})" if o[1] in ("Activate", "SkipBranch") else "(Raises CrOther)"
    if o[0] == "raises-expr":
        return "RaisesExprErr"
    return f"(Raises {o[1]})"


def cq_skip(o) -> str:
    if o[0] == "dec":
        return f"(Decided {'true' if o[1] else 'false'})" if isinstance(o[1], bool) else "(Raises CrOther)"
    if o[0] == "raises-expr":
        return "RaisesExprErr"
    return f"(Raises {o[1]})"


# =================================================================================================
# expression generator
# =================================================================================================

PALETTE = [
    ("vn", None), ("vt", True), ("vf", False),
    ("i0", 0), ("i1", 1), ("im", -1), ("i2", 2), ("ib", 1000), ("ih", 10 ** 30),
    ("s0", ""), ("sa", "a"), ("sab", "ab"), ("sb", "b"), ("su", "éa"),
    ("l0", []), ("l1", [1]), ("la", [1, "a"]), ("ln", [None]), ("ll", [[1]]), ("l2", [1, 2, 3]),
    ("t0", ()), ("t1", (1,)), ("tl", ([1],)), ("t2", (1, 2)),
    ("d0", {}), ("da", {"a": 1, "b": None}), ("d1", {1: "x", (1,): "y", "a": "z"}),
    ("dn", {"n": {"m": 2}, "a": {"a": []}}), ("dl", {"a": [1, 2], "m": "ab"}),
    ("db", {"b": None, "a": True}),            # == da (other insertion order, True == 1), but not the same object
]
NAMES = [n for n, _ in PALETTE]


def contexts():
    """0: the palette; 1: the same names bound to the palette rotated by 7 (other types under each
    name); 2: empty (every name missing); 3: JSON-like stage context"""
    c0 = dict(PALETTE)
    vals = [v for _, v in PALETTE]
    c1 = {n: vals[(i + 7) % len(vals)] for i, n in enumerate(NAMES)}
    c2 = {}
    c3 = {"status": "ok", "count": 3, "flag": True, "items": ["a", "b"], "result": {"code": 0, "tags": ["x"]},
          "sa": "a", "i1": 1, "vn": None, "d0": {"a": {"b": {"c": 1}}}}
    return [c0, c1, c2, c3]


SPECIAL = ["true", "false", "none", "null", "None", "True", "False"]
LITS = ["0", "1", "2", "256", "257", "1000", "''", "'a'", "'ab'", "'b'", "'éa'", "-1", "10**2"]
ATTRS = ["a", "b", "n", "m", "zz"]
CMPOPS = ["==", "!=", "<", "<=", ">", ">=", "is", "is not", "in", "not in"]
UNOPS = ["not ", "-", "+", "~"]
UNSUPPORTED = [
    "f({a})", "{a}()", "{a} + {b}", "{a} - {b}", "{a} * 2", "{a} ** {b}", "lambda: {a}", "[q for q in {a}]",
    "{{q for q in {a}}}", "(q for q in {a})", "{{q: q for q in {a}}}", "{{{a}}}", "{{{a}: {b}}}", "f'{{{a}}}'",
    "(w := {a})", "{a}[1:2]", "{a}[::2]", "[*{a}]", "{a} if f() else {b}", "await {a}", "(yield {a})",
    "{a}.m()", "{a} @ {b}", "{a} << 1", "{a} | {b}", "__import__('os')", "print({a})", "{a}.__class__",
    "{a}.__class__.__mro__", "[{a}, f()]", "({a}, {b}) == f()", "not f()", "-f()", "{a}[f()]", "f()[{a}]",
    "f() and {a}", "{a} and f()", "{a} or f()", "{a} < f()", "{a} < {b} < f()", "{a} if {b} else f()", "*{a}",
    "{a}[{b}:]", "{a} is f()",
]
SINGLETON_TEXT = {"None", "True", "False", "true", "false", "none", "null"}


def leaves_all():
    return NAMES + ["zz"] + SPECIAL + LITS


def leaves_core():
    return NAMES + ["zz", "None", "True", "False", "1", "'a'", "1000"]


def exhaustive_depth1():
    """every single-operator form: (binary forms over every operand pair of the core leaves,
    unary / attribute / display / conditional forms over every leaf)"""
    L, A = leaves_core(), leaves_all()
    pairs, singles = [], []
    for op in CMPOPS:
        for a in L:
            for b in L:
                pairs.append((f"{a} {op} {b}", "compare:" + op))
    for a in L:
        for b in L:
            pairs.append((f"{a}[{b}]", "subscript"))
            pairs.append((f"{a} and {b}", "boolop:and"))
            pairs.append((f"{a} or {b}", "boolop:or"))
    for a in A:
        for u in UNOPS:
            singles.append((f"{u}{a}", "unary:" + u.strip()))
        for at in ATTRS:
            singles.append((f"{a}.{at}" if not a[0].isdigit() and a[0] != "-" else f"({a}).{at}", "attribute"))
        singles.append((f"[{a}]", "list"))
        singles.append((f"({a},)", "tuple"))
        singles.append((f"{a}[({a},)]", "subscript"))
        singles.append((f"{a}[[{a}]]", "subscript"))
        singles.append((f"d1[{a}]", "subscript"))
        singles.append((f"l2[{a}]", "subscript"))
        singles.append((f"1 if {a} else 2", "ifexp"))
    return pairs, singles


class Gen:
    def __init__(self, rng):
        self.rng = rng
        self.dyn = 0

    def leaf(self):
        r = self.rng.random()
        if r < 0.6:
            return self.rng.choice(NAMES + ["zz"])
        if r < 0.75:
            return self.rng.choice(SPECIAL)
        return self.rng.choice(LITS)

    def term(self, d):
        rng = self.rng
        if d <= 0 or rng.random() < 0.15:
            return self.leaf()
        k = rng.random()
        if k < 0.30:
            n = rng.choice([1, 1, 1, 2, 2, 3])
            parts = [self.term(d - 1)]
            for _ in range(n):
                op = rng.choice(CMPOPS)
                nxt = self.term(d - 1)
                if op in ("is", "is not") and parts[-1] not in SINGLETON_TEXT and nxt not in SINGLETON_TEXT:
                    if self.dyn >= 1:
                        nxt = rng.choice(["None", "True", "False", "none"])
                    else:
                        self.dyn += 1
                parts += [op, nxt]
            return "(" + " ".join(parts) + ")"
        if k < 0.42:
            op = rng.choice([" and ", " or "])
            return "(" + op.join(self.term(d - 1) for _ in range(rng.choice([2, 2, 3]))) + ")"
        if k < 0.54:
            return "(" + rng.choice(UNOPS) + self.term(d - 1) + ")"
        if k < 0.66:
            return f"{self.term(d - 1)}[{self.term(d - 1)}]" if rng.random() < 0.8 else f"{self.leaf()}[{rng.choice(['0', '-1', '1', '5', '-9'])}]"
        if k < 0.74:
            base = self.term(d - 1)
            return f"({base}).{rng.choice(ATTRS)}"
        if k < 0.81:
            return f"({self.term(d - 1)} if {self.term(d - 1)} else {self.term(d - 1)})"
        if k < 0.87:
            return "[" + ", ".join(self.term(d - 1) for _ in range(rng.choice([0, 1, 2, 3]))) + "]"
        if k < 0.92:
            n = rng.choice([0, 1, 2, 3])
            items = [self.term(d - 1) for _ in range(n)]
            return "(" + ", ".join(items) + ("," if n == 1 else "") + ")"
        t = rng.choice(UNSUPPORTED)
        return "(" + t.format(a=self.term(d - 1), b=self.term(d - 1)) + ")"


def random_exprs(rng, n):
    out = []
    for _ in range(n):
        g = Gen(rng)
        out.append((g.term(rng.choice([2, 2, 3, 3, 4])), "random"))
    return out


NAMED_EXPRS = [
    # the documented uses
    "status == 'ok'", "count > 2 and flag", "result.code == 0", "result['code'] != 0", "'a' in items",
    "items[0] == 'a'", "items[-1]", "items[5]", "result.tags[0]", "not flag", "count >= 3 or status != 'ok'",
    "d0.a.b.c == 1", "d0['a']['b']['c']", "missing.a.b", "missing is None", "missing == none", "flag is true",
    "1 < count < 5", "1 < count < 2 < f()", "count < 'a'", "0 < count < 'a'", "5 < count < 'a'",
    # fast path and whitespace handling
    "true", "True", " TRUE ", "tRuE", "false", "FALSE\n", "1", "0", " 0\t", "01", "00", "1 ", "-1", "+1", "10", "0x1",
    "\x0c1\x0c", "\x1f0\x1f", "\u2003true\u2003", "\u00a0false", "\u30001", "\ufefftrue", "true\x00", "t rue",
    "\uff54\uff52\uff55\uff45", "TRUE == true", "(true)", "true,", "\u0130", "Tru\u212a",
    "yes", "no", "on", "off", "y", "n", "t", "f", "T", "F", "YES", "No", "nil", "NULL", "NONE", "ok", "2", "-0", "+0", "1.0",
    "0.0", "0j", "enabled", "disabled", "always", "never", "x", "_", "__debug__", "not 0", "not 1", "(1)", "(0)", "[0]", "0,",
    # bool is an int; identity; hashing
    "True == 1", "True is 1", "vt is True", "i1 is True", "i1 == True", "d1[True]", "d1[vt]", "d1[t1]", "d1[(True,)]",
    "l2[True]", "l2[vf]", "-True", "-vf", "--vt", "-(-(i2))", "not -0", "True < 2", "vt + 1", "vt in l1", "1 in (vt,)",
    "() is ()", "t0 is t0", "[] is []", "i1 is i1", "sa is sa", "ib is 1000", "sa is 'a'",
    # the F5 witnesses and their neighbours
    "-sa", "-zz", "-vn", "-l0", "-d0", "-t0", "d0[[1]]", "d0[l1]", "d0[d0]", "d0[tl]", "d0[(1, [2])]", "da[ll]",
    "l0[[1]]", "sa[[1]]", "vn[[1]]", "[1] in d0", "l1 in da", "tl in d1", "d0 in d0", "l1 in l1", "l1 in ll",
    "(-sa) == 1", "[-sa]", "1 if -sa else 2", "zz[-sa]", "d0[-sa]", "+sa", "~sa", "+(-sa)", "-(+sa)", "not -sa",
    "d0[[1]] and f()", "f() and d0[[1]]", "-sa or f()", "f() or -sa",
    # ordering
    "[1, 'a'] < [1, 2]", "[1, 'a'] < [1, 'b']", "ln < ln", "ln <= ln", "ln < [None, 1]", "[None] < [1]", "t1 < t2",
    "t1 < l1", "l1 < l2", "l2 < l1", "'a' < 'ab'", "'ab' < 'b'", "su > sb", "'' < 'a'", "d0 < d0", "d0 == d0",
    "da == da", "da != d1", "vn < 1", "vn == vn", "1 < vn", "1 == 'a'", "[] == ()", "[1] == [True]", "(1,) == (True,)",
    "ll == [[True]]", "{} == d0", "ih > ib", "ih == 10**30", "-ih < im",
    # membership
    "'' in sa", "'b' in 'ab'", "'ba' in 'ab'", "1 in 'ab'", "vn in 'ab'", "'a' in da", "1 in d1", "True in d1",
    "(1,) in d1", "vn in ln", "vn not in ln", "vn in vn", "1 in 1", "'a' not in 1", "l1 not in d0",
    # subscripts
    "l2[0]", "l2[2]", "l2[3]", "l2[-3]", "l2[-4]", "l2[ih]", "l2[-ih]", "l2['a']", "l2[vn]", "t2[1]", "t2[-1]", "sa[0]",
    "vn[0]", "i1[0]", "da['a']", "da['zz']", "da[1]", "dn['n']['m']", "dn.n.m", "dn.a.a", "dl.a[1]", "dl.m.m",
    "da[zz]", "d1[1, ]", "d1[(1,)]", "l2[0, 1]", "l2[1:2]", "l2[:]", "l2[...]", "da['a', 'b']",
    # eager BoolOp, lazy IfExp / chained Compare
    "vt or f()", "vf and f()", "vt or -sa", "1 if vt else f()", "f() if vf else 2", "1 if vt else -sa",
    "-sa if vf else 2", "1 > 2 > f()", "1 > 2 > -sa", "1 < 2 < -sa", "vt and vf and vn", "vn or 0 or ''", "l0 or d0 or t0",
    "l1 and d0", "(vt and vf) is False", "(l1 or l0) is True", "not l0", "not l1", "not sa", "not s0", "not d0", "not da",
    # unsupported constructs
    "f()", "f(1)", "zz.f()", "(lambda: 1)()", "lambda: 1", "[q for q in l2]", "{q for q in l2}", "{1: 2}", "{1, 2}",
    "f'{sa}'", "(w := 1)", "1 + 1", "'a' * 3", "'a' 'b'", "2 ** 3", "-2 ** 2", "i1 @ i1", "*l1", "[*l1]", "(*l1,)",
    "l2[1:2]", "await zz", "(yield)", "(yield from l1)", "__import__('os').system('true')", "().__class__.__bases__",
    "zz.__class__", "da.__class__", "da.get", "da.get('a')", "print(1)", "exec('1')", "open('/etc/passwd')",
    "...", "1.5 > 1", "1e999 > 1", "1j < 2", "b'a' == 'a'", "-b'a'", "-...", "-1.5", "i1 < 1.5", "0.1 + 0.2",
    "'\\ud800'", "'\\x00'", "'\\N{BULLET}'", "'\\u00e9' == su", "é == 1", "x\u0301", "\U0001d552", "a\u00b7b",
    # statements / junk
    "", " ", "\t\n", "\x1c", "\x00", "x\x00y", "(", ")", "((", "[", "]", "{", "'", "'''", "\"", "x ==", "== x", "x = 1",
    "x == 1;", "x; y", "import os", "def f(): pass", "x\n== 1", "x ==\\\n1", "\\", "x \\", "#", "x # c", "# c\nx",
    "x if", "if x", "else", "not", "and", "1 and", "in", "is", "is not", "not in", "x not", "x is not", "lambda", ":=",
    "0b1", "0o7", "0xff", "1_000", "1__0", "0_0", "9" * 50, "1e5", "1.", ".1", "1..real", "1 .real", "1.real",
    "$", "?", "x?", "x!", "x!=1", "x<>1", "x===1", "x=<1", "`x`", "x -> y", "@x", "x@", "\u00a7", "\u2028", "x\u2028",
    "\ud800", "'\ud800'", "x\udfff", "\ufeff", "\ufeffx", "x\r", "x\r\ny", "\rx", "x\x0cy", "\x0cx", "x\x0b", "\x1bx",
    "((((((((((x))))))))))", "[[[[[[[[[[x]]]]]]]]]]", "x.a.a.a.a.a.a.a.a", "x[0][0][0][0][0]", "not not not not x",
    "- - - - 1", "-+-+1", "~-1", "not-1", "not+1", "x if y else z if w else v", "(x if y else z) if w else v",
    "1 if 2 if 3 else 4 else 5", "x == y == z == w", "a < b > c <= d >= e != f", "x in y in z", "x is y is not z",
    "not x == y", "not (x == y)", "(not x) == y", "x and y or z", "x or y and z", "not x and y", "x and not y",
    "l2[i1]", "l2[i1 if vt else i0]", "l2[l2[0]]", "l2[l2[l2[0]]]", "dn[sa if vf else 'n'].m", "[l2, d0, -1][2]",
    "(l2, d0)[0][1]", "[[1, 2], [3]][0][1]", "[1, 2][5]", "()[0]", "[][0]", "''[0]", "(1, 2, 3)[-1]", "[1, [2, [3]]][1][1][0]",
]


def deep_exprs():
    out = []
    for n in (20, 90, 150, 199, 200, 201, 300, 450, 900, 1100, 3000):
        out += ["not " * n + "x", "-" * n + "1", "x" + ".a" * n, "x" + "[0]" * n, "(" * n + "x" + ")" * n,
                "[" * n + "x" + "]" * n, "(" * n + "x" + ",)" * n]
    for n in (50, 500, 3000, 20000):
        out += [" and ".join(["x"] * n), " < ".join(["1"] * n), "[" + ", ".join(["x"] * n) + "]",
                " if x else ".join(["1"] * min(n, 3000))]
    out += ["9" * 4300, "9" * 4301, "9" * 5000 + " > 1", "0x" + "f" * 5000, "0x" + "f" * 100000, "-" + "9" * 4000,
            "'" + "a" * 100000 + "'", "x" * 100000, "1" + "0" * 4000 + " in l2", " " * 100000 + "1", "1" + "\n" * 50000,
            "1 if " * 200 + "x", "lambda: " * 500 + "1", "f(" * 150 + ")" * 150]
    return out


class Trip:
    """a context value that records if the evaluator ever calls / dereferences it"""

    def __init__(self):
        self.calls = 0

    def __call__(self, *a, **k):
        self.calls += 1
        return True

    def __getattr__(self, name):
        if name.startswith("__") and name.endswith("__"):
            raise AttributeError(name)
        self.calls += 1
        return self


TRIP_EXPRS = [
    "f()", "f(1)", "f(x)", "x.f()", "(lambda: f())()", "[f() for q in [1]]", "f() if x else 0", "0 if f() else 1",
    "f and f()", "f.go", "f.go()", "f['a']", "f == f", "f is f", "f in [f]", "x < f()", "not f()", "[f(), 1]",
    "f.__call__()", "f.__class__", "(f)()", "f()()", "f(f)", "x if x else f()", "x or f()", "-f", "f < 1", "1 in f",
    "f[0]", "f.a.b", "d[f]", "f and x", "not f", "f if f else f",
]


# =================================================================================================
# graphs
# =================================================================================================

def named_graphs():
    S = lambda r, reqs, syn=False: (r, sorted(reqs), syn)  # noqa: E731
    return [
        ("empty", []),
        ("single", [S(1, [])]),
        ("chain", [S(1, []), S(2, [1]), S(3, [2])]),
        ("chain-reversed", [S(3, [2]), S(2, [1]), S(1, [])]),
        ("diamond", [S(4, [2, 3]), S(2, [1]), S(3, [1]), S(1, [])]),
        ("fan", [S(1, []), S(2, [1]), S(3, [1]), S(4, [1]), S(5, [2, 3, 4])]),
        ("two-components", [S(1, []), S(2, [1]), S(3, []), S(4, [3])]),
        ("transitive-edge", [S(1, []), S(2, [1]), S(3, [1, 2])]),
        ("self", [S(1, [1])]),
        ("self-among", [S(1, []), S(2, [1, 2])]),
        ("unknown", [S(1, [9])]),
        ("unknown-among", [S(1, []), S(2, [1, 9])]),
        ("dup", [S(1, []), S(1, [])]),
        ("dup-different-reqs", [S(1, []), S(2, [1]), S(1, [2])]),
        ("cycle2", [S(1, [2]), S(2, [1])]),
        ("cycle3", [S(1, [3]), S(2, [1]), S(3, [2])]),
        ("cycle-with-tail", [S(1, []), S(2, [1, 4]), S(3, [2]), S(4, [3]), S(5, [4])]),
        ("cycle-and-free", [S(1, [2]), S(2, [1]), S(3, [])]),
        ("dup+self", [S(1, [1]), S(1, [])]),
        ("dup+unknown", [S(1, [9]), S(1, [])]),
        ("dup+cycle", [S(1, [2]), S(2, [1]), S(2, [])]),
        ("self+unknown-same-stage", [S(1, [1, 9])]),
        ("unknown-then-self", [S(1, [9]), S(2, [2])]),
        ("self-then-unknown", [S(1, [1]), S(2, [9])]),
        ("cycle+unknown", [S(1, [2]), S(2, [1]), S(3, [9])]),
        ("cycle+self", [S(1, [2]), S(2, [1]), S(3, [3])]),
        ("unknown-late+cycle", [S(1, [2]), S(2, [1, 9])]),
        ("synthetic-ignored", [S(1, []), S(7, [99], True)]),
        ("synthetic-dup-ignored", [S(1, []), S(1, [], True)]),
        ("synthetic-self-ignored", [S(1, []), S(7, [7], True)]),
        ("requires-synthetic-ref", [S(1, [7]), S(7, [], True)]),
        ("synthetic-in-cycle", [S(1, [7]), S(7, [1], True)]),
        ("only-synthetic", [S(7, [], True), S(8, [7], True)]),
        ("synthetic-requires-top", [S(1, []), S(7, [1], True), S(2, [1])]),
        ("long-chain", [S(i, [i - 1] if i > 1 else []) for i in range(1, 13)]),
        ("long-cycle", [S(i, [i - 1] if i > 1 else [12]) for i in range(1, 13)]),
        ("wide", [S(1, [])] + [S(i, [1]) for i in range(2, 12)] + [S(12, list(range(2, 12)))]),
    ]


def random_graph(rng):
    n = rng.choice([1, 2, 3, 3, 4, 4, 5, 5, 6, 7, 9])
    order = list(range(1, n + 1))
    stages = []
    for i, r in enumerate(order):
        k = rng.choice([0, 1, 1, 2, 3]) if i else 0
        reqs = rng.sample(order[:i], min(k, i))
        stages.append([r, reqs, False])
    tags = []
    nmut = rng.choice([0, 0, 0, 1, 1, 1, 1, 2, 2, 3])
    for _ in range(nmut):
        m = rng.choice(["dup", "self", "unknown", "back", "back", "back", "synthetic", "syn-top"])
        s = rng.choice(stages)
        if m == "dup" and n > 1:
            s[0] = rng.choice([x[0] for x in stages if x is not s])
        elif m == "self":
            s[1] = s[1] + [s[0]]
        elif m == "unknown":
            s[1] = s[1] + [rng.choice([90, 91])]
        elif m == "back" and n > 1:
            pos = next(i for i, x in enumerate(stages) if x is s)
            if pos + 1 < len(stages):
                s[1] = s[1] + [rng.choice(stages[pos + 1:])[0]]
        elif m == "synthetic":
            stages.append([rng.choice([70, 71, s[0]]), rng.sample([x[0] for x in stages] + [95], rng.choice([0, 1, 2])), True])
        elif m == "syn-top":
            s[2] = True
        tags.append(m)
    rng.shuffle(stages)
    return ("random:" + ("+".join(sorted(tags)) or "valid"), [(r, sorted(set(q)), syn) for r, q, syn in stages])


def exhaustive_graphs(nmax):
    out = []
    for n in range(1, nmax + 1):
        universe = list(range(1, n + 1)) + [9]
        subsets = [list(c) for k in range(len(universe) + 1) for c in itertools.combinations(universe, k)]
        for reqs in itertools.product(subsets, repeat=n):
            out.append((f"exhaustive:n={n}", [(i + 1, list(reqs[i]), False) for i in range(n)]))
    return out


def py_defects(stages):
    """independent judgement of a stage list (top-level stages only): set of defect kinds"""
    top = [s for s in stages if not s[2]]
    refs = [s[0] for s in top]
    d = set()
    if len(set(refs)) != len(refs):
        d.add("dup")
    if any(s[0] in s[1] for s in top):
        d.add("self")
    if any(set(s[1]) - set(refs) for s in top):
        d.add("unknown")
    # cycle by DFS over requisites (white/grey/black), on the ref graph
    adj = {}
    for s in top:
        adj.setdefault(s[0], set()).update(r for r in s[1] if r != s[0])
    color = {}

    def dfs(u):
        color[u] = 1
        for v in adj.get(u, ()):
            if v not in adj:
                continue
            c = color.get(v, 0)
            if c == 1 or (c == 0 and dfs(v)):
                return True
        color[u] = 2
        return False
    if any(color.get(u, 0) == 0 and dfs(u) for u in list(adj)):
        d.add("cycle")
    return d


class GraphImpl:
    def __init__(self):
        lib.ensure_repo_on_path()
        from stabilize.dag import topological as T
        from stabilize.models.stage import StageExecution
        from stabilize.models.workflow import Workflow
        self.T, self.StageExecution, self.Workflow = T, StageExecution, Workflow

    def build(self, stages):
        objs = []
        for i, (r, reqs, syn) in enumerate(stages):
            objs.append(self.StageExecution(ref_id=f"r{r}", name=f"n{i}", requisite_stage_ref_ids={f"r{q}" for q in reqs},
                                            parent_stage_id="PARENT" if syn else None))
        return objs

    def vres(self, fn):
        T = self.T
        try:
            fn()
        except T.InvalidStageGraphError as e:
            m = str(e)
            for pre, k in (("duplicate_ref", "VDup"), ("self_edge", "VSelf"), ("unknown_ref", "VUnknown")):
                if m.startswith(pre):
                    return k
            return "invalid-other"
        except T.CircularDependencyError:
            return "VCycle"
        except Exception as e:  # noqa: BLE001
            return "crash:" + type(e).__name__
        return "VOk"

    def sort(self, fn, idx):
        T = self.T
        try:
            o = fn()
        except T.CircularDependencyError as e:
            return ("cyc", [idx[id(s)] for s in e.stages])
        except Exception as e:  # noqa: BLE001
            return ("crash", type(e).__name__)
        return ("ok", [idx[id(s)] for s in o])

    def observe(self, stages):
        objs = self.build(stages)
        idx = {id(o): i for i, o in enumerate(objs)}
        ob = {
            "create": self.vres(lambda: self.Workflow.create("app", "wf", self.build(stages))),
            "validate": self.vres(lambda: self.T.validate_stage_graph(objs)),
            "sort": self.sort(lambda: self.T.topological_sort(objs), idx),
            "sort_all": self.sort(lambda: self.T.topological_sort_all_stages(objs), idx),
        }
        try:
            ob["layers"] = [[idx[id(s)] for s in layer] for layer in self.T.get_execution_layers(objs)]
        except Exception as e:  # noqa: BLE001
            ob["layers"] = "crash:" + type(e).__name__
        return ob


def graph_monitors(tag, stages, ob):
    """the property, evaluated directly on what the implementation did"""
    out = []
    defects = py_defects(stages)
    rep = {"kind": "graph", "stages": [list(s) for s in stages], "tag": tag}
    for api in ("create", "validate"):
        got = ob[api]
        if got.startswith("crash:"):
            out.append(Violation(f"{api} raised {got[6:]} on a stage list (neither accepted nor a graph error)",
                                 f"graph:{api}-crash:{got[6:]}", dict(rep, observed=got)))
        elif got == "VOk" and defects:
            out.append(Violation(f"Workflow.create/validate_stage_graph ({api}) accepts an invalid stage graph: {sorted(defects)}",
                                 f"graph:accepts-invalid:{'+'.join(sorted(defects))}", dict(rep, observed=got, defects=sorted(defects))))
        elif got != "VOk" and not defects:
            out.append(Violation(f"Workflow.create/validate_stage_graph ({api}) rejects a valid stage graph with {got}",
                                 f"graph:rejects-valid:{got}", dict(rep, observed=got)))
    for api, flt in (("sort", lambda s: not s[2]), ("sort_all", lambda s: True)):
        kind, val = ob[api][0], ob[api][1]
        want = [i for i, s in enumerate(stages) if flt(s)]
        if kind == "crash":
            out.append(Violation(f"topological_sort ({api}) raised {val}", f"graph:{api}-crash:{val}", dict(rep, observed=val)))
        elif kind == "ok":
            bad = sorted(val) != want
            seen = set()
            for i in val:
                if not bad and not set(stages[i][1]) <= seen:
                    bad = True
                seen.add(stages[i][0])
            if bad:
                out.append(Violation("topological_sort returned an order that is not a permutation of the stages listing "
                                     "every stage after all of its requisites", f"graph:order-unsound:{api}", dict(rep, observed=val)))
        elif kind == "cyc" and api == "sort" and not defects:
            out.append(Violation("topological_sort raises CircularDependencyError on a valid acyclic graph",
                                 "graph:sort-rejects-acyclic", dict(rep, observed=val)))
    return out


def cq_stage(i, s):
    return f"(mkStage {i} {s[0]} [{'; '.join(str(q) for q in s[1])}] {'true' if s[2] else 'false'})"


def cq_osort(o):
    if o[0] == "ok":
        return "(OOk [" + "; ".join(map(str, o[1])) + "])"
    if o[0] == "cyc":
        return "(OCyc [" + "; ".join(map(str, o[1])) + "])"
    return "OBad"


def cq_vres(v):
    return f"(Some {v})" if v in ("VOk", "VDup", "VSelf", "VUnknown", "VCycle") else "None"


GRAPH_REQ = """From Stab.model Require Import Graph.
Import ListNotations.
Open Scope Z_scope.
Inductive osort := OOk (l : list Z) | OCyc (l : list Z) | OBad.
Definition sort_agrees (all : bool) (g : list stage) (obs : osort) : bool :=
  match topo_sort all g, obs with
  | SortOk o, OOk l => order_matches (sort_layers all g) l && same_set (ids o) l
  | SortCycle r, OCyc l => same_set (ids r) l
  | _, _ => false
  end.
Definition vres_eqb (a : vresult) (b : option vresult) : bool :=
  match a, b with
  | VOk, Some VOk | VDup, Some VDup | VSelf, Some VSelf | VUnknown, Some VUnknown | VCycle, Some VCycle => true
  | _, _ => false
  end.
Definition ckg (x : list stage * option vresult * option vresult * osort * osort * option (list (list Z))) : bool :=
  match x with (g, oc, ov, os, oa, ol) =>
    vres_eqb (validate g) oc && vres_eqb (validate g) ov && sort_agrees false g os && sort_agrees true g oa
    && match ol with Some l => layers_match (map ids (execution_layers g)) l | None => false end
  end.
"""


def graph_part(ctx, res):
    rng = ctx.rng
    thorough = ctx.tier == "thorough"
    cases = named_graphs()
    cases += [random_graph(rng) for _ in range(8000 if thorough else 700)]
    cases += exhaustive_graphs(3 if thorough else 2)
    G = GraphImpl()
    terms, dist, samples = [], {}, []
    seen = set()
    for tag, stages in cases:
        ob = G.observe(stages)
        res.violations += graph_monitors(tag, stages, ob)
        g = "[" + "; ".join(cq_stage(i, s) for i, s in enumerate(stages)) + "]"
        ol = "None" if isinstance(ob["layers"], str) else \
            "(Some [" + "; ".join("[" + "; ".join(map(str, ly)) + "]" for ly in ob["layers"]) + "])"
        terms.append(f"({g}, {cq_vres(ob['create'])}, {cq_vres(ob['validate'])}, {cq_osort(ob['sort'])}, "
                     f"{cq_osort(ob['sort_all'])}, {ol})")
        key = tag.split(":")[0] + ":" + ob["create"]
        dist[key] = dist.get(key, 0) + 1
        seen.add((tuple((r, tuple(q), syn) for r, q, syn in stages), ))
        if len(samples) < 3 and tag.startswith("random") and len(stages) >= 4:
            samples.append({"graph": [list(s) for s in stages], "tag": tag, "create": ob["create"], "sort": ob["sort"]})
    fail, err = lib.coq_failing_indices(GRAPH_REQ, "ckg",
                                        "list stage * option vresult * option vresult * osort * osort * option (list (list Z))",
                                        terms, "c20_graph")
    if err:
        res.disagreements.append({"what": "graph model evaluation failed", "detail": err[:800]})
    for i in fail[:10]:
        tag, stages = cases[i]
        res.disagreements.append({"what": "graph model and implementation differ", "tag": tag,
                                  "stages": [list(s) for s in stages], "observed": G.observe(stages)})
    if len(fail) > 10:
        res.disagreements.append({"what": f"... and {len(fail) - 10} more graph disagreements"})
    res.evaluations += len(terms)
    res.distinct_nontrivial += sum(1 for (st,) in seen if len(st) >= 2)
    res.samples += samples
    res.distribution["graphs"] = dict(sorted(dist.items()))
    res.distribution["graph_sizes"] = {str(k): sum(1 for _, s in cases if len(s) == k) for k in sorted({len(s) for _, s in cases})}
    return len(terms)


# =================================================================================================
# expression part
# =================================================================================================

def detect_cfg(I: Impl):
    """which behaviour does the implementation have on the known witnesses?"""
    def crashes(src, c, kind):
        out, _ = I.evaluate(src, c)
        if out[0] == "crash" and out[1] == kind:
            return True, out
        return False, out
    probes = {
        "fix_usub": [("-x", {"x": "abc"}, "CrTypeUSub"), ("-x", {}, "CrTypeUSub")],
        "fix_sub": [("d[[1]]", {"d": {}}, "CrTypeUnhashable"), ("d[k]", {"d": {}, "k": {}}, "CrTypeUnhashable")],
        "fix_rec": [("not " * 3000 + "x", {}, "CrRecursion")],
        "fix_val": [("'\ud800'", {}, "CrValue")],
    }
    cfg, found = {}, []
    for flag, ps in probes.items():
        hit = False
        for src, c, kind in ps:
            bad, out = crashes(src, c, kind)
            if bad:
                hit = True
                found.append((src, c, out))
        cfg[flag] = not hit
    cfg["fix_mem"] = cfg["fix_rec"] and cfg["fix_val"]     # MemoryError cannot be provoked; same except clause
    return cfg, found


WHAT = {
    "expr:TypeError:UnaryOp-USub": "evaluate_expression raises TypeError (unary minus on a non-number, e.g. '-x' with x='abc' or x missing) "
                                   "instead of ExpressionError; _should_skip/_apply_split_logic let it crash the stage handler",
    "expr:TypeError:Subscript-unhashable-key": "evaluate_expression raises TypeError (dict subscript with a list/dict key, e.g. 'd[[1]]') "
                                               "instead of ExpressionError; the callers let it crash the stage handler",
    "expr:RecursionError": "evaluate_expression raises RecursionError on a deeply nested condition (e.g. 'not '*3000+'x') instead of ExpressionError",
    "expr:ValueError:parse": "evaluate_expression lets ValueError/UnicodeEncodeError from ast.parse escape (lone surrogate, oversized int literal) "
                             "instead of ExpressionError",
}


def enc(v):
    """JSON-safe, type-preserving encoding of a context value (for replay files)"""
    if v is None or type(v) in (bool, str):
        return v
    if type(v) is int:
        return {"int": str(v)}
    if type(v) is list:
        return {"list": [enc(x) for x in v]}
    if type(v) is tuple:
        return {"tuple": [enc(x) for x in v]}
    if type(v) is dict:
        return {"dict": [[enc(k), enc(x)] for k, x in v.items()]}
    if isinstance(v, Trip):
        return {"trip": True}
    return {"repr": repr(v)}


def dec(j):
    if j is None or isinstance(j, (bool, str)):
        return j
    if "int" in j:
        return int(j["int"])
    if "list" in j:
        return [dec(x) for x in j["list"]]
    if "tuple" in j:
        return tuple(dec(x) for x in j["tuple"])
    if "dict" in j:
        return {dec(k): dec(x) for k, x in j["dict"]}
    if "trip" in j:
        return Trip()
    raise ValueError(j)


def expr_replay(src, c, **kw):
    return dict({"kind": "expr", "expression": src, "context": enc(c)}, **kw)


EXPR_REQ_HEAD = """From Stab.gen Require Import Gen_ExprCallers.
From Stab.model Require Import Expr ExprCallers.
Import ListNotations.
Open Scope Z_scope.
Definition idF (a b : value) : bool := false.
Definition idT (a b : value) : bool := true.
Definition crash_eqb (j k : crash) : bool := result_eqb (Crash j) (Crash k).
Definition osplit_eqb (a b : outcome split_decision) : bool :=
  match a, b with
  | Decided Activate, Decided Activate | Decided SkipBranch, Decided SkipBranch => true
  | Raises j, Raises k => crash_eqb j k
  | RaisesExprErr, RaisesExprErr => true
  | _, _ => false
  end.
Definition oskip_eqb (a b : outcome bool) : bool :=
  match a, b with
  | Decided x, Decided y => Bool.eqb x y
  | Raises j, Raises k => crash_eqb j k
  | RaisesExprErr, RaisesExprErr => true
  | _, _ => false
  end.
Definition agree (r obs : result) (osp : outcome split_decision) (osk : outcome bool) : bool :=
  result_eqb r obs && osplit_eqb (apply_split r) osp && oskip_eqb (should_skip r) osk.
Definition cke (cf : cfg) (x : list Z * parse_result * context * result * outcome split_decision * outcome bool) : bool :=
  match x with (src, p, cx, obs, osp, osk) =>
    agree (evaluate_py idF cf cx src p 3000%nat) obs osp osk
    || agree (evaluate_py idT cf cx src p 3000%nat) obs osp osk
  end.
"""


def cq_ctx(c):
    return "[" + "; ".join(f"({cq_codes(k)}, {cq_val(v)})" for k, v in c.items()) + "]"


def expr_part(ctx, res):
    rng = ctx.rng
    thorough = ctx.tier == "thorough"
    I = Impl()
    cfg, found = detect_cfg(I)
    res.extra["implementation_cfg"] = cfg
    if all(cfg.values()):
        res.notes.append("implementation shows the repaired behaviour on every F5 witness: compared against cfg = fixed")
    else:
        res.notes.append("implementation still crashes on F5 witnesses (%s): compared against that cfg; C20_total_refuted applies"
                         % ", ".join(k for k, v in cfg.items() if not v))
    ctxs = contexts()

    # ---- the streams ----------------------------------------------------------------------------
    cases = []   # (src, ctx index, stream)
    pairs, singles = exhaustive_depth1()
    if not thorough:
        pairs = rng.sample(pairs, 1500)
    cases += [(s, 0, f) for s, f in pairs + singles]
    cases += [(s, rng.choice([0, 0, 0, 1, 1, 2]), f) for s, f in random_exprs(rng, 15000 if thorough else 900)]
    for s in NAMED_EXPRS:
        cases.append((s, 3, "named"))
        cases.append((s, 0, "named"))
    deep = deep_exprs()
    cases += [(s, 0, "deep/huge") for s in deep]
    # whitespace / case variants of the fast path around random short texts
    ws = ["", " ", "\t", "\n", "\x0b", "\x0c", "\r", "\x1c", "\x1f", "\x85", "\xa0", "\u1680", "\u2000", "\u200a", "\u2028",
          "\u2029", "\u202f", "\u205f", "\u3000", "\u200b", "\ufeff", "\x00", "\x1b"]
    for core in ["true", "TRUE", "True", "false", "FaLsE", "1", "0", "x", "vt", "tru", "truee", "00", "1 == 1", ""]:
        for _ in range(6 if thorough else 3):
            cases.append((rng.choice(ws) + rng.choice(ws) + core + rng.choice(ws) + rng.choice(ws), 0, "fast-path/whitespace"))

    logging.disable(logging.CRITICAL)
    terms, term_case = [], []
    dist = {"stream": {}, "outcome": {}, "parse": {}, "callers": {}}
    skipped = {"constant-outside-model": 0, "too-deep-for-model": 0, "recursion-limit": 0, "too-long": 0,
               "dynamic-is>1": 0, "value-outside-model": 0}
    distinct = set()
    viol_seen = set()
    try:
        for src, ci, stream in cases:
            c = ctxs[ci]
            out, unchanged = I.evaluate(src, c)
            osp = I.split(src, c)
            osk = I.skip(src, c)
            dist["stream"][stream] = dist["stream"].get(stream, 0) + 1
            okey = out[0] if out[0] != "crash" else "crash:" + out[2]
            dist["outcome"][okey] = dist["outcome"].get(okey, 0) + 1
            dist["callers"][f"split:{osp[0] if osp[0] != 'dec' else osp[1]}"] = dist["callers"].get(f"split:{osp[0] if osp[0] != 'dec' else osp[1]}", 0) + 1
            dist["callers"][f"skip:{osk[0] if osk[0] != 'dec' else osk[1]}"] = dist["callers"].get(f"skip:{osk[0] if osk[0] != 'dec' else osk[1]}", 0) + 1
            # ---- monitors (the property on the implementation) ----
            if out[0] == "crash" and out[2] not in viol_seen:
                viol_seen.add(out[2])
                res.violations.append(Violation(WHAT.get(out[2], f"evaluate_expression raises {out[3]} instead of ExpressionError"),
                                                out[2], expr_replay(src[:4000] if len(src) > 4000 else src, c, observed=out[3],
                                                                    truncated=len(src) > 4000, full_length=len(src))))
            if not unchanged and "mut" not in viol_seen:
                viol_seen.add("mut")
                res.violations.append(Violation("evaluate_expression mutated the context it was given", "expr:context-mutated",
                                                expr_replay(src, c)))
            for which, o in (("apply_split_logic", osp), ("should_skip", osk)):
                sig = None
                if o[0] == "raises-expr":
                    sig = f"caller:{which}:ExpressionError-escapes"
                elif o[0] == "raises" and not (out[0] == "crash" and out[2] == o[2]):
                    sig = f"caller:{which}:{o[2]}"
                elif o[0] == "dec" and o[1] == "?":
                    sig = f"caller:{which}:no-decision"
                if sig and sig not in viol_seen:
                    viol_seen.add(sig)
                    res.violations.append(Violation(f"{which} does not turn a failing condition into a skip / not-skip decision "
                                                    f"({o})", sig, dict(expr_replay(src, c), kind="caller", caller=which)))
            # ---- the model side ----
            if len(src) > 3000:
                skipped["too-long"] += 1
                continue
            p, depth, dyn, pk = parse_outcome(src)
            dist["parse"][pk] = dist["parse"].get(pk, 0) + 1
            if p is None:
                skipped[pk] += 1
                continue
            if (out[0] == "crash" and out[1] == "CrRecursion") or p == "(PCrash CrRecursion)":
                skipped["recursion-limit"] += 1
                continue
            if dyn > 1:
                skipped["dynamic-is>1"] += 1
                continue
            ro = cq_result(out)
            if ro is None:
                skipped["value-outside-model"] += 1
                continue
            terms.append(f"({cq_codes(src)}, {p}, cx{ci}, {ro}, {cq_split(osp)}, {cq_skip(osk)})")
            term_case.append((src, ci, stream, out, osp, osk))
            if pk == "parsed" and depth >= 2:
                distinct.add((src.strip(), ci))
    finally:
        logging.disable(logging.NOTSET)

    # ---- tripwire stream: a callable in the context is never called -------------------------------
    for src in TRIP_EXPRS:
        t = Trip()
        c = {"f": t, "x": 1, "d": {"a": 1}}
        try:
            out = I.outcome(lambda: I.ev(src, c))
        except Exception as e:  # noqa: BLE001
            out = ("crash", "CrOther", "expr:harness", repr(e))
        dist["stream"]["tripwire"] = dist["stream"].get("tripwire", 0) + 1
        if t.calls:
            res.violations.append(Violation(f"evaluate_expression executed code from the context: {src!r} called/dereferenced a context object "
                                            f"{t.calls} time(s)", "expr:code-executed", expr_replay(src, {"f": t, "x": 1, "d": {"a": 1}})))
        if out[0] == "crash" and out[2] not in viol_seen:
            viol_seen.add(out[2])
            res.violations.append(Violation(WHAT.get(out[2], f"evaluate_expression raises {out[3]} instead of ExpressionError"),
                                            out[2], expr_replay(src, {"f": t, "x": 1, "d": {"a": 1}}, observed=out[3])))
        res.evaluations += 1

    # ---- run the model on everything, inside Coq ------------------------------------------------
    req = EXPR_REQ_HEAD + "".join(f"Definition cx{i} : context := {cq_ctx(c)}.\n" for i, c in enumerate(ctxs))
    cf = "(mkCfg %s %s %s %s %s)" % tuple("true" if cfg[k] else "false" for k in ("fix_usub", "fix_sub", "fix_rec", "fix_val", "fix_mem"))
    fail, err = lib.coq_failing_indices(req, f"cke {cf}",
                                        "list Z * parse_result * context * result * outcome split_decision * outcome bool",
                                        terms, "c20_expr")
    if err:
        res.disagreements.append({"what": "expression model evaluation failed", "detail": err[:800]})
    for i in fail[:12]:
        src, ci, stream, out, osp, osk = term_case[i]
        res.disagreements.append({"what": "expression model and implementation differ", "expression": src[:300], "context": ci,
                                  "stream": stream, "implementation": repr(out)[:200], "split": osp[:2], "skip": osk[:2],
                                  "model_term": terms[i][:400]})
    if len(fail) > 12:
        res.disagreements.append({"what": f"... and {len(fail) - 12} more expression disagreements"})
    res.evaluations += len(cases)
    res.traces_validated += len(terms)
    res.distinct_nontrivial += len(distinct)
    res.distribution["expressions"] = {k: dict(sorted(v.items())) for k, v in dist.items()}
    res.distribution["expressions"]["compared_with_model"] = len(terms)
    res.distribution["expressions"]["not_compared"] = skipped
    res.samples += [{"expression": s, "context": ci, "outcome": repr(o)[:80], "split": sp[:2], "skip": sk[:2]}
                    for s, ci, st, o, sp, sk in term_case[:: max(1, len(term_case) // 5)][:5]]
    res.extra["f5_witnesses_still_failing"] = [{"expression": s[:60], "observed": o[3]} for s, _, o in found]
    return len(terms)


# =================================================================================================
# entry points
# =================================================================================================

def run(ctx) -> RunResult:
    res = RunResult(rule="distinct (stripped expression text, context) pairs that parse to an AST of depth >= 2 and were "
                         "compared with the model, plus distinct stage lists with >= 2 stages")
    ng = graph_part(ctx, res)
    ne = expr_part(ctx, res)
    res.traces_validated += ng
    res.exhaustive = ctx.tier == "thorough"
    # check.py only calls search() when run() reported no violation at all; on this tree run() always
    # reports the known F5 findings, so do the harder search here when something broke and every
    # violation so far is a known one
    if (res.disagreements or ctx.broken) and all(v.signature in KNOWN for v in res.violations):
        have = {v.signature for v in res.violations}
        try:
            extra = [v for v in search(ctx, list(ctx.broken)) if v.signature not in have]
        except Exception:  # noqa: BLE001
            extra = []
            res.notes.append("search crashed: " + traceback.format_exc()[-400:])
        res.violations += extra
        res.notes.append(f"something no longer checks: searched the implementation harder, {len(extra)} further failing input(s)")
    res.notes.append(f"{ng} graphs and {ne} expressions evaluated by the Coq model (vm_compute) and compared with the implementation; "
                     "thorough = all graphs with <= 3 distinct-ref stages over requisites in {1..n, unknown} and all single-operator "
                     "expression forms over all pairs of 37 operand leaves")
    return res


def search(ctx, broken):
    """proofs or correspondence broke and run() found no failing input: look harder with the monitors only"""
    out = []
    rng = ctx.rng
    G = GraphImpl()
    for tag, stages in named_graphs() + exhaustive_graphs(3) + [random_graph(rng) for _ in range(6000)]:
        out += graph_monitors(tag, stages, G.observe(stages))
        if len(out) > 3:
            break
    I = Impl()
    ctxs = contexts()
    seen = set()
    logging.disable(logging.CRITICAL)
    try:
        pool = [(s, 0) for part in exhaustive_depth1() for s, _ in part] + [(s, rng.choice([0, 1, 2])) for s, _ in random_exprs(rng, 8000)] \
            + [(s, ci) for s in NAMED_EXPRS + deep_exprs() for ci in (0, 3)]
        for src, ci in pool:
            c = ctxs[ci]
            o, unchanged = I.evaluate(src, c)
            if o[0] == "crash" and o[2] not in seen:
                seen.add(o[2])
                out.append(Violation(WHAT.get(o[2], f"evaluate_expression raises {o[3]} instead of ExpressionError"), o[2],
                                     expr_replay(src[:4000], c, observed=o[3])))
            if not unchanged and "mut" not in seen:
                seen.add("mut")
                out.append(Violation("evaluate_expression mutated the context it was given", "expr:context-mutated", expr_replay(src, c)))
            for which, fn in (("apply_split_logic", I.split), ("should_skip", I.skip)):
                r = fn(src, c)
                sig = None
                if r[0] == "raises-expr":
                    sig = f"caller:{which}:ExpressionError-escapes"
                elif r[0] == "raises" and not (o[0] == "crash" and o[2] == r[2]):
                    sig = f"caller:{which}:{r[2]}"
                if sig and sig not in seen:
                    seen.add(sig)
                    out.append(Violation(f"{which} does not turn a failing condition into a decision ({r})", sig,
                                         dict(expr_replay(src, c), kind="caller", caller=which)))
    finally:
        logging.disable(logging.NOTSET)
    return out


def replay(obj) -> bool:
    """True = the property holds on the recorded input"""
    r = obj.get("replay")
    if not r:
        return True
    if r["kind"] == "graph":
        stages = [(s[0], list(s[1]), bool(s[2])) for s in r["stages"]]
        return not graph_monitors(r.get("tag", "replay"), stages, GraphImpl().observe(stages))
    I = Impl()
    c = dec(r["context"])
    src = r["expression"]
    if r.get("truncated"):
        return True   # the full text was too long to store; the witness family is in deep_exprs()
    logging.disable(logging.CRITICAL)
    try:
        if r["kind"] == "caller":
            o = I.split(src, c) if r["caller"] == "apply_split_logic" else I.skip(src, c)
            return o[0] == "dec" and o[1] != "?"
        trips = [v for v in c.values() if isinstance(v, Trip)]
        out, unchanged = I.evaluate(src, c)
        return out[0] != "crash" and unchanged and not any(t.calls for t in trips)
    finally:
        logging.disable(logging.NOTSET)
