"""Copy a confirmed seeded change from its scratch worktree into /verif/seeded/<id>/ (patch.diff, demo.py, meta.json)."""
import json, shutil, sys
from pathlib import Path

def main(pid, seed_id, detected, confirm_line, wt=None):
    wt = Path(wt or f"/tmp/seed_{pid}")
    dst = Path("/verif/seeded") / seed_id
    dst.mkdir(parents=True, exist_ok=True)
    shutil.copy(wt / "seed" / "patch.diff", dst / "patch.diff")
    shutil.copy(wt / "seed" / "demo.py", dst / "demo.py")
    meta = json.loads((wt / "seed" / "meta.json").read_text())
    meta["property"] = pid
    meta["produced_by"] = "independent sub-agent given only the property text and a scratch worktree of /repo"
    meta["confirmed_by_lead"] = confirm_line
    meta["how_to_run_demo"] = "apply patch.diff to a checkout of /repo, then PYTHONPATH=<checkout>/src /venv/bin/python demo.py (exit 1 with the change, 0 without)"
    meta["detected_by"] = detected
    (dst / "meta.json").write_text(json.dumps(meta, indent=1) + "\n")
    print("saved", dst)

if __name__ == "__main__":
    main(*sys.argv[1:6])
