"""Re-run the checks against every saved seeded change, applied to a scratch worktree of /repo's CURRENT HEAD.

  python -m harness.seed_regress [ids...] [--tier quick|thorough]

For each /verif/seeded/<id>/patch.diff: git worktree of /repo HEAD under /tmp, `git apply` (falls back to --3way),
`./seedcheck <worktree> <property> --tier ...` (own Coq build tree and output directory: /repo, /verif/build and
/verif/evidence are untouched), then the worktree and the scratch build are removed.  Writes seeded/REGRESSION.md.
A seed counts as caught when the check exits 1 with a VIOLATION line; `applies=False` means the patch no longer
applies to HEAD (the code it changed was since repaired or moved)."""
from __future__ import annotations

import json
import shutil
import subprocess
import sys
import time
from pathlib import Path

VERIF = Path(__file__).resolve().parent.parent
REPO = Path("/repo")


def sh(cmd, **kw):
    return subprocess.run(cmd, shell=True, capture_output=True, text=True, **kw)


def one(seed_id: str, tier: str) -> dict:
    d = VERIF / "seeded" / seed_id
    meta = json.loads((d / "meta.json").read_text())
    pid = meta["property"]
    wt = Path(f"/tmp/sr_{seed_id}")
    sh(f"git -C {REPO} worktree remove --force {wt}")
    shutil.rmtree(wt, ignore_errors=True)
    r = sh(f"git -C {REPO} worktree add --detach {wt} HEAD")
    res = {"id": seed_id, "property": pid, "tier": tier, "applies": False, "exit": None, "lines": []}
    try:
        a = sh(f"git -C {wt} apply {d / 'patch.diff'}")
        if a.returncode != 0:
            a = sh(f"git -C {wt} apply --3way {d / 'patch.diff'}")
        if a.returncode != 0:
            res["note"] = (a.stderr or a.stdout).strip()[:300]
            return res
        res["applies"] = True
        t0 = time.time()
        c = sh(f"{VERIF / 'seedcheck'} {wt} {pid} --tier {tier}", timeout=3600)
        res["exit"] = c.returncode
        res["wall"] = round(time.time() - t0, 1)
        out = [ln for ln in (c.stdout + c.stderr).splitlines() if "translator error outside" not in ln]
        res["lines"] = [ln[:400] for ln in out if ln.startswith(("VIOLATION", "[C", "  no longer checks"))][:8]
        res["no_failing_input"] = any("no-failing-input-found" in ln for ln in out)
    finally:
        sh(f"git -C {REPO} worktree remove --force {wt}")
        shutil.rmtree(wt, ignore_errors=True)
        shutil.rmtree(f"/tmp/verif_alt_{wt.name}", ignore_errors=True)
    return res


def main(argv):
    tier = "quick"
    if "--tier" in argv:
        tier = argv[argv.index("--tier") + 1]
        argv = [a for i, a in enumerate(argv) if a != "--tier" and argv[i - 1] != "--tier"]
    ids = argv or sorted(p.name for p in (VERIF / "seeded").iterdir() if (p / "patch.diff").exists())
    results = []
    for sid in ids:
        r = one(sid, tier)
        results.append(r)
        print(json.dumps(r)[:600], flush=True)
        if r["applies"] and r["exit"] == 0 and tier == "quick":
            r2 = one(sid, "thorough")
            results.append(r2)
            print(json.dumps(r2)[:600], flush=True)
    if argv:
        # a partial re-run: keep the recorded results of the other seeds
        try:
            old = json.loads((VERIF / "seeded" / "regression.json").read_text())
        except Exception:
            old = []
        results = sorted([r for r in old if r["id"] not in ids] + results, key=lambda r: (r["id"], r["tier"]))
    head = sh(f"git -C {REPO} rev-parse --short HEAD").stdout.strip()
    lines = [f"# Seeded changes re-run against /repo HEAD {head}", "",
             "| seed | property | tier | applies to HEAD | check exit | caught | concrete replay | summary |", "|---|---|---|---|---|---|---|---|"]
    for r in results:
        caught = r["exit"] == 1
        summ = next((ln for ln in r["lines"] if ln.startswith("[C")), r.get("note", ""))
        lines.append(f"| {r['id']} | {r['property']} | {r['tier']} | {r['applies']} | {r['exit']} | {'yes' if caught else 'NO'} | "
                     f"{'-' if not caught else ('no (theorem / correspondence only)' if r.get('no_failing_input') else 'yes')} | {summ[:160]} |")
    (VERIF / "seeded" / "REGRESSION.md").write_text("\n".join(lines) + "\n")
    (VERIF / "seeded" / "regression.json").write_text(json.dumps(results, indent=1) + "\n")


if __name__ == "__main__":
    main(sys.argv[1:])
