"""Emitter Gen_Conc.v (C04 / C11): the facts of the StartStage claim protocol that the statement-level model
coq/model/Conc.v depends on, each taken from the AST of the current source in a fixed shape (fail-closed):

  handlers/start_stage/handler.py        _start_if_ready: the fast paths (_is_mutex_blocked -> queue.push StartStage(retry_count + 1);
                                         _is_deferred_choice_claimed -> txn mark + CancelStage) come before the claim; the claim is ONE
                                         `with self.repository.transaction` block containing, in this order, acquire_claim(mutex,
                                         steal_if_owner_terminal=True), acquire_claim(choice) [no steal], store_stage(stage,
                                         expected_phase=claim_expected_phase) with claim_expected_phase in {'RUNNING' (zombie), 'NOT_STARTED'};
                                         `except _ClaimBlockedError`: mutex -> queue.push StartStage(retry_count + 1) with no budget test,
                                         choice -> txn mark + CancelStage(self); `except ConcurrencyError`: returns without a push or store;
                                         then _cancel_deferred_choice_siblings, _plan_stage, the plan commit (store_stage without phase,
                                         mark, pushes) whose ConcurrencyError is swallowed too
  handlers/start_stage/conditions.py     the status tests of _is_mutex_blocked / _is_deferred_choice_claimed
  handlers/start_stage/orchestration.py  _cancel_deferred_choice_siblings: one queue.push(CancelStage) per NOT_STARTED sibling
  persistence/sqlite/transaction.py      acquire_claim: INSERT OR IGNORE; rowcount == 1; re-read; vanished-row retry; same owner; steal iff
                                         the owner row is missing or .is_complete
  persistence/sqlite/operations.py       cleanup_completed_stage_claims: DELETE only for executions whose status is_complete
  persistence/sqlite/migrations.py       stage_claims PRIMARY KEY (execution_id, claim_key)
  handlers/complete_stage/handler.py     _update_join_tracking(...) is called BEFORE the transaction that pushes the downstream StartStage
  handlers/signal_stage.py               the persistent-buffer branch stores the stage (plain version CAS) + mark in one transaction
"""
from __future__ import annotations

import ast

from harness.translate import HEADER, TranslateError, _fail, _find_class, _find_func, _parse
from harness.tr.guards import Tr

H = "handlers/start_stage/handler.py"
C = "handlers/start_stage/conditions.py"
O = "handlers/start_stage/orchestration.py"
T = "persistence/sqlite/transaction.py"
P = "persistence/sqlite/operations.py"
G = "persistence/sqlite/migrations.py"
K = "handlers/complete_stage/handler.py"
S = "handlers/signal_stage.py"


def _u(n) -> str:
    return ast.unparse(n)


def _calls(node: ast.AST, name: str) -> list[ast.Call]:
    cs = [n for n in ast.walk(node) if isinstance(n, ast.Call) and _u(n.func) == name]
    cs.sort(key=lambda n: (n.lineno, n.col_offset))
    return cs


def _kw(call: ast.Call) -> dict:
    return {k.arg: k.value for k in call.keywords}


def _is_txn_with(n: ast.AST) -> bool:
    return (isinstance(n, ast.With) and len(n.items) == 1 and isinstance(n.items[0].context_expr, ast.Call)
            and _u(n.items[0].context_expr.func) == "self.repository.transaction"
            and n.items[0].optional_vars is not None and _u(n.items[0].optional_vars) == "txn")


def _writes(node: ast.AST) -> list[str]:
    """names of every durable-write call under node"""
    out = []
    for n in ast.walk(node):
        if isinstance(n, ast.Call):
            f = _u(n.func)
            if f in ("self.queue.push", "txn.push_message", "txn.store_stage", "txn.mark_message_processed",
                     "self.repository.store_stage", "txn.acquire_claim", "self.repository.transaction"):
                out.append(f)
    return out


def _pushed_type(call: ast.Call) -> str:
    if not call.args or not isinstance(call.args[0], ast.Call):
        return "?"
    return _u(call.args[0].func)


def _ends_with_return(body: list) -> bool:
    return bool(body) and isinstance(body[-1], ast.Return) and body[-1].value is None


def _requeue_push(rel, node, where) -> str:
    """node contains exactly one self.queue.push(StartStage(... retry_count=retry_count + 1), self.retry_delay); returns the increment"""
    ps = _calls(node, "self.queue.push")
    if len(ps) != 1:
        _fail(rel, node, f"{where}: expected exactly one self.queue.push, found {len(ps)}")
    p = ps[0]
    msg = p.args[0] if p.args else None
    if isinstance(msg, ast.Name):       # new_message = StartStage(...)
        defs = [n for n in ast.walk(node) if isinstance(n, ast.Assign) and _u(n.targets[0]) == msg.id]
        if len(defs) != 1:
            _fail(rel, p, f"{where}: pushed message variable is not assigned exactly once")
        msg = defs[0].value
    if not (isinstance(msg, ast.Call) and _u(msg.func) == "StartStage"):
        _fail(rel, p, f"{where}: the re-queue does not push a StartStage")
    kw = _kw(msg)
    if _u(kw.get("stage_id", ast.Constant(None))) != "message.stage_id":
        _fail(rel, p, f"{where}: the re-queued StartStage is not for message.stage_id")
    rc = kw.get("retry_count")
    if not (isinstance(rc, ast.BinOp) and isinstance(rc.op, ast.Add) and _u(rc.left) == "retry_count"
            and isinstance(rc.right, ast.Constant) and isinstance(rc.right.value, int)):
        _fail(rel, p, f"{where}: retry_count is not `retry_count + <int>`")
    if len(p.args) < 2 or _u(p.args[1]) != "self.retry_delay":
        _fail(rel, p, f"{where}: the re-queue is not delayed by self.retry_delay")
    # no budget on this path: no comparison that mentions retry_count / max_retries
    for n in ast.walk(node):
        if isinstance(n, ast.Compare) and ("retry_count" in _u(n) or "max_retries" in _u(n) or "max_stage_wait" in _u(n)):
            _fail(rel, n, f"{where}: the mutex re-queue path now tests a retry budget")
    others = [w for w in _writes(node) if w != "self.queue.push"]
    if others:
        _fail(rel, node, f"{where}: unexpected durable writes next to the re-queue: {others}")
    return str(rc.right.value)


def _cancel_self_txn(rel, node, where):
    """node contains exactly: with transaction: [if message.message_id: txn.mark_message_processed(...)]; txn.push_message(CancelStage(stage_id=message.stage_id))"""
    ws = [n for n in ast.walk(node) if _is_txn_with(n)]
    if len(ws) != 1:
        _fail(rel, node, f"{where}: expected exactly one transaction block")
    w = ws[0]
    marks = _calls(w, "txn.mark_message_processed")
    pushes = _calls(w, "txn.push_message")
    if len(marks) != 1 or len(pushes) != 1 or _pushed_type(pushes[0]) != "CancelStage":
        _fail(rel, w, f"{where}: the block is not mark_message_processed + push_message(CancelStage)")
    if _u(_kw(pushes[0].args[0]).get("stage_id", ast.Constant(None))) != "message.stage_id":
        _fail(rel, pushes[0], f"{where}: the CancelStage is not for message.stage_id")
    extra = [x for x in _writes(node) if x not in ("self.repository.transaction", "txn.mark_message_processed", "txn.push_message")]
    if extra:
        _fail(rel, node, f"{where}: unexpected durable writes: {extra}")


def gen_conc() -> str:
    out = [HEADER.format(src=", ".join([H, C, O, T, P, G, K, S]))]
    out.append("From Stab.gen Require Import Gen_Status.\nOpen Scope bool_scope.\n")

    # ------------------------------------------------------------------ _start_if_ready
    cls = _find_class(_parse(H), "StartStageHandler", H)
    f = _find_func(cls.body, "_start_if_ready", H)
    body = f.body
    idx = {}
    for i, st in enumerate(body):
        if isinstance(st, ast.If) and _u(st.test) == "self._is_mutex_blocked(stage)":
            idx["mutex_fast"] = i
        elif isinstance(st, ast.If) and isinstance(st.test, ast.BoolOp) and isinstance(st.test.op, ast.And) and len(st.test.values) == 3 \
                and _u(st.test.values[0]) == "stage.deferred_choice_group" and _u(st.test.values[2]) == "self._is_deferred_choice_claimed(stage)":
            idx["choice_fast"] = i
        elif isinstance(st, ast.If) and _u(st.test) == "stage.status == WorkflowStatus.RUNNING" and "claim_expected_phase" in _u(st):
            idx["phase"] = i
        elif isinstance(st, ast.Try) and st.body and _is_txn_with(st.body[0]) and _calls(st.body[0], "txn.acquire_claim"):
            idx["claim"] = i
        elif isinstance(st, ast.If) and _u(st.test) == "stage.deferred_choice_group" and _calls(st, "self._cancel_deferred_choice_siblings"):
            idx["sibs"] = i
        elif isinstance(st, ast.Try) and _calls(st, "self._plan_stage"):
            idx["plan_stage"] = i
        elif isinstance(st, ast.Try) and st.body and _is_txn_with(st.body[0]) and not _calls(st.body[0], "txn.acquire_claim") \
                and _calls(st.body[0], "txn.store_stage"):
            idx["plan_commit"] = i
    want = ["mutex_fast", "choice_fast", "phase", "claim", "sibs", "plan_stage", "plan_commit"]
    for w in want:
        if w not in idx:
            _fail(H, f, f"_start_if_ready: statement `{w}` not found in the expected shape")
    if [idx[w] for w in want] != sorted(idx[w] for w in want):
        _fail(H, f, "_start_if_ready: fast paths / claim / sibling cancel / plan are no longer in this order: %r" % idx)
    # nothing durable between the phase assignment and the claim, nor between the claim and the sibling cancel
    for i in range(idx["phase"], idx["claim"]):
        if i != idx["phase"] and _writes(body[i]):
            _fail(H, body[i], "durable write between the phase selection and the claim transaction")
    for i in range(idx["claim"] + 1, idx["sibs"]):
        if _writes(body[i]):
            _fail(H, body[i], "durable write between the claim transaction and the sibling cancel")

    # fast paths
    inc1 = _requeue_push(H, body[idx["mutex_fast"]], "mutex fast path")
    if not _ends_with_return(body[idx["mutex_fast"]].body):
        _fail(H, body[idx["mutex_fast"]], "mutex fast path does not return")
    _cancel_self_txn(H, body[idx["choice_fast"]], "deferred-choice fast path")
    # the middle conjunct: the sibling scan (and the self-cancel) only for a stage with this status; a RUNNING claimant that is
    # re-planned after a crash skips it
    cf_guard = Tr(H, {"stage.status": ("st", "status")}).term(body[idx["choice_fast"]].test.values[1])
    cf_src = _u(body[idx["choice_fast"]].test.values[1])
    if not _ends_with_return(body[idx["choice_fast"]].body):
        _fail(H, body[idx["choice_fast"]], "deferred-choice fast path does not return")

    # phase selection
    ph = body[idx["phase"]]
    a_then = [n for n in ph.body if isinstance(n, ast.Assign) and _u(n.targets[0]) == "claim_expected_phase"]
    a_else = [n for n in ph.orelse if isinstance(n, ast.Assign) and _u(n.targets[0]) == "claim_expected_phase"]
    if len(a_then) != 1 or len(a_else) != 1 or not all(isinstance(a.value, ast.Constant) and isinstance(a.value.value, str) for a in a_then + a_else):
        _fail(H, ph, "claim_expected_phase is not assigned one string constant per branch")
    zombie_phase, fresh_phase = a_then[0].value.value, a_else[0].value.value
    sets_running = [n for n in ast.walk(ast.Module(body=ph.orelse, type_ignores=[])) if isinstance(n, ast.Call)
                    and _u(n.func) == "self.set_stage_status" and _u(n.args[1]) == "WorkflowStatus.RUNNING"]
    pend = [n for n in ph.orelse if isinstance(n, ast.Assign) and _u(n.targets[0]) == "stage.context['_plan_pending']"
            and isinstance(n.value, ast.Constant) and n.value.value is True]
    if len(sets_running) != 1 or len(pend) != 1:
        _fail(H, ph, "the fresh-claim branch no longer sets RUNNING and _plan_pending = True")

    # the claim transaction
    tr = body[idx["claim"]]
    w = tr.body[0]
    if len(tr.body) != 1:
        _fail(H, tr, "the claim try-block contains more than the transaction block")
    shape = []
    steal = {}
    for st in w.body:
        acq = _calls(st, "txn.acquire_claim")
        sto = _calls(st, "txn.store_stage")
        if acq:
            if len(acq) != 1 or not isinstance(st, ast.If) or not (len(st.body) == 1 and isinstance(st.body[0], ast.Raise)):
                _fail(H, st, "acquire_claim is not the test of an `if ...: raise _ClaimBlockedError`")
            t = st.test
            if not (isinstance(t, ast.BoolOp) and isinstance(t.op, ast.And) and len(t.values) == 2
                    and isinstance(t.values[1], ast.UnaryOp) and isinstance(t.values[1].op, ast.Not) and t.values[1].operand is acq[0]):
                _fail(H, st, "claim test is not `<key> and not txn.acquire_claim(...)`")
            guard = _u(t.values[0])
            kind = {"stage.mutex_key": "mutex", "stage.deferred_choice_group": "choice"}.get(guard)
            if kind is None:
                _fail(H, st, f"unknown claim guard {guard}")
            a = acq[0]
            key = a.args[1] if len(a.args) > 1 else None
            if not (isinstance(key, ast.JoinedStr) and _u(key).startswith("f'" + kind + ":")):
                _fail(H, a, f"{kind} claim key is not f'{kind}:{{...}}'")
            if len(a.args) < 3 or _u(a.args[0]) != "message.execution_id" or _u(a.args[2]) != "stage.id":
                _fail(H, a, "acquire_claim is not called with (message.execution_id, key, stage.id)")
            sv = _kw(a).get("steal_if_owner_terminal")
            if sv is not None and not (isinstance(sv, ast.Constant) and isinstance(sv.value, bool)):
                _fail(H, a, "steal_if_owner_terminal is not a boolean literal")
            steal[kind] = bool(sv.value) if sv is not None else False
            rz = st.body[0].exc
            if not (isinstance(rz, ast.Call) and _u(rz.func) == "_ClaimBlockedError" and isinstance(rz.args[0], ast.Constant)
                    and rz.args[0].value == kind):
                _fail(H, st, f"a failed {kind} claim does not raise _ClaimBlockedError('{kind}')")
            shape.append(kind)
        elif sto:
            if len(sto) != 1 or not isinstance(st, ast.Expr):
                _fail(H, st, "unexpected store_stage shape in the claim transaction")
            kw = _kw(sto[0])
            if _u(sto[0].args[0]) != "stage":
                _fail(H, sto[0], "the claim stores something other than `stage`")
            shape.append("store:" + (_u(kw["expected_phase"]) if "expected_phase" in kw else "-"))
        elif _writes(st):
            _fail(H, st, "unexpected durable write inside the claim transaction")
    if shape[:2] != ["mutex", "choice"] or len(shape) != 3 or not shape[2].startswith("store:"):
        _fail(H, w, f"claim transaction is not [acquire mutex; acquire choice; store_stage]: {shape}")
    uses_phase = shape[2] == "store:claim_expected_phase"

    # handlers of the claim try
    hs = {(_u(h.type) if h.type is not None else "*"): h for h in tr.handlers}
    if set(hs) != {"_ClaimBlockedError", "ConcurrencyError"}:
        _fail(H, tr, f"claim try has handlers {sorted(hs)}")
    hb = hs["_ClaimBlockedError"]
    if hb.name != "blocked" or not _ends_with_return(hb.body):
        _fail(H, hb, "_ClaimBlockedError handler does not end with `return`")
    br = [n for n in hb.body if isinstance(n, ast.If) and _u(n.test) == "blocked.kind == 'mutex'"]
    if len(br) != 1:
        _fail(H, hb, "_ClaimBlockedError handler does not branch on blocked.kind == 'mutex'")
    inc2 = _requeue_push(H, ast.Module(body=br[0].body, type_ignores=[]), "mutex claim loser")
    _cancel_self_txn(H, ast.Module(body=br[0].orelse, type_ignores=[]), "deferred-choice claim loser")
    for n in hb.body:
        if n is not br[0] and _writes(n):
            _fail(H, n, "_ClaimBlockedError handler performs a durable write outside its two branches")
    hc = hs["ConcurrencyError"]
    swallowed = _ends_with_return(hc.body) and not _writes(ast.Module(body=hc.body, type_ignores=[])) \
        and not any(isinstance(n, ast.Raise) for n in ast.walk(ast.Module(body=hc.body, type_ignores=[])))
    if inc1 != inc2:
        _fail(H, hb, f"the two mutex re-queues use different increments ({inc1} / {inc2})")

    # sibling cancel precedes planning; plan commit
    pc = body[idx["plan_commit"]]
    pw = pc.body[0]
    psto = _calls(pw, "txn.store_stage")
    if not psto or _kw(psto[0]) or _u(psto[0].args[0]) != "stage" or not (isinstance(pw.body[0], ast.Expr) and pw.body[0].value is psto[0]):
        _fail(H, pw, "plan commit does not begin with txn.store_stage(stage) without expected_phase")
    # besides the stage itself the plan commit may store the synthetic stages planning has just built (new rows, never `stage`)
    for extra in psto[1:]:
        holder = [n for n in pw.body if isinstance(n, ast.For) and _u(n.iter) == "new_synthetic_stages" and _u(n.target) == "synthetic"
                  and len(n.body) == 1 and isinstance(n.body[0], ast.Expr) and n.body[0].value is extra]
        if not holder or _kw(extra) or _u(extra.args[0]) != "synthetic":
            _fail(H, extra, "plan commit stores something besides `stage` and the new synthetic stages")
    if len(psto) > 2:
        _fail(H, pw, "plan commit has more than two store_stage calls")
    if len(_calls(pw, "txn.mark_message_processed")) != 1:
        _fail(H, pw, "plan commit does not mark the message processed in the same transaction")
    loops = [n for n in pw.body if isinstance(n, ast.For) and _u(n.iter) == "messages_to_push" and _calls(n, "txn.push_message")]
    if len(loops) != 1:
        _fail(H, pw, "plan commit does not push messages_to_push in the same transaction")
    phs = {(_u(h.type) if h.type is not None else "*"): h for h in pc.handlers}
    if set(phs) != {"ConcurrencyError"}:
        _fail(H, pc, f"plan commit try has handlers {sorted(phs)}")
    plan_swallowed = _ends_with_return(phs["ConcurrencyError"].body) and not _writes(ast.Module(body=phs["ConcurrencyError"].body, type_ignores=[]))
    clear = [n for n in body[idx["plan_stage"] + 1: idx["plan_commit"]] if "stage.context.pop('_plan_pending'" in _u(n)]
    if len(clear) != 1:
        _fail(H, f, "the plan commit no longer clears _plan_pending")
    fired = [n for n in body[idx["sibs"] + 1: idx["plan_stage"]] if isinstance(n, ast.If) and "stage.context['_join_fired'] = True" in _u(n)]
    fired_joins = []
    for n in fired:
        # `stage.join_type == JoinType.X` (one `if` per join type) or one `if stage.join_type in (JoinType.X, JoinType.Y)`
        t = n.test
        if isinstance(t, ast.Compare) and len(t.ops) == 1 and _u(t.left) == "stage.join_type" and isinstance(t.ops[0], ast.In) \
                and isinstance(t.comparators[0], (ast.Tuple, ast.Set, ast.List)):
            fired_joins += [_u(e).replace("JoinType.", "") for e in t.comparators[0].elts]
        else:
            fired_joins.append(_u(t).replace("stage.join_type == JoinType.", ""))
    fired_joins = sorted(fired_joins)
    if fired_joins != ["DISCRIMINATOR", "N_OF_M"]:
        _fail(H, f, f"_join_fired is set for {fired_joins}, expected DISCRIMINATOR and N_OF_M after the claim")

    out.append(f"(* {H}: _start_if_ready *)")
    out.append("Definition fast_paths_before_claim : bool := true.")
    out.append(f"(* {H}:{body[idx['choice_fast']].lineno} the deferred-choice fast path (sibling scan + self-cancel) runs only when `{cf_src}` *)")
    out.append(f"Definition choice_fast_guard (st : status) : bool := {cf_guard}.")
    out.append("Definition claim_txn_is_acquire_mutex_acquire_choice_store : bool := true.   (* one `with transaction` block, this order *)")
    out.append(f"Definition claim_uses_expected_phase : bool := {'true' if uses_phase else 'false'}.")
    out.append(f"Definition claim_phase_fresh : status := {fresh_phase}.")
    out.append(f"Definition claim_phase_zombie : status := {zombie_phase}.")
    out.append(f"Definition mutex_claim_steals : bool := {'true' if steal.get('mutex') else 'false'}.")
    out.append(f"Definition choice_claim_steals : bool := {'true' if steal.get('choice') else 'false'}.")
    out.append(f"Definition claim_conc_error_swallowed : bool := {'true' if swallowed else 'false'}.   (* `except ConcurrencyError: return`, no push, no store *)")
    out.append(f"Definition plan_conc_error_swallowed : bool := {'true' if plan_swallowed else 'false'}.")
    out.append(f"Definition mutex_requeue_increment : Z := ({inc1})%Z.   (* both mutex re-queues: StartStage(retry_count + {inc1}), queue.push, own commit *)")
    out.append("Definition mutex_requeue_has_budget : bool := false.")
    out.append("Definition choice_loser_cancels_self_in_txn : bool := true.   (* mark + CancelStage(message.stage_id) in one transaction *)")
    out.append("Definition sibling_cancel_before_plan : bool := true.")
    out.append("Definition plan_commit_is_store_mark_push : bool := true.\n")

    # ------------------------------------------------------------------ conditions.py / orchestration.py
    cm = _find_class(_parse(C), "StartStageConditionsMixin", C)
    for fn, var, name, same in (("_is_mutex_blocked", "mutex_key", "mutex_blocks", "s.mutex_key == stage.mutex_key"),
                                ("_is_deferred_choice_claimed", "deferred_choice_group", "choice_blocks",
                                 "s.deferred_choice_group == stage.deferred_choice_group")):
        g = _find_func(cm.body, fn, C)
        loops = [n for n in g.body if isinstance(n, ast.For) and _u(n.iter) == "all_stages"]
        if len(loops) != 1 or "self.repository.retrieve(stage.execution.id).stages" not in _u(g):
            _fail(C, g, f"{fn}: not a single loop over repository.retrieve(...).stages")
        lb = loops[0].body
        if not (len(lb) == 2 and isinstance(lb[0], ast.If) and _u(lb[0].test) == "s.id == stage.id" and isinstance(lb[0].body[0], ast.Continue)
                and isinstance(lb[1], ast.If) and isinstance(lb[1].test, ast.BoolOp) and isinstance(lb[1].test.op, ast.And)
                and len(lb[1].test.values) == 2 and _u(lb[1].test.values[0]) == same
                and isinstance(lb[1].body[0], ast.Return) and _u(lb[1].body[0].value) == "True"):
            _fail(C, g, f"{fn}: loop body is not `skip self; if same key and <status test>: return True`")
        t = Tr(C, {"s.status": ("st", "status")}).term(lb[1].test.values[1])
        out.append(f"(* {C}:{lb[1].lineno} {fn}: a sibling with the same key blocks when `{_u(lb[1].test.values[1])}` *)")
        out.append(f"Definition {name} (st : status) : bool := {t}.")
    om = _find_class(_parse(O), "StartStageOrchestrationMixin", O)
    g = _find_func(om.body, "_cancel_deferred_choice_siblings", O)
    loops = [n for n in g.body if isinstance(n, ast.For) and _u(n.iter) == "all_stages"]
    if len(loops) != 1:
        _fail(O, g, "_cancel_deferred_choice_siblings: not a single loop over all_stages")
    lb = loops[0].body
    if not (len(lb) == 2 and _u(lb[0].test) == "s.id == stage.id" and isinstance(lb[1].test, ast.BoolOp)
            and _u(lb[1].test.values[0]) == "s.deferred_choice_group == stage.deferred_choice_group"):
        _fail(O, g, "_cancel_deferred_choice_siblings: unexpected loop body")
    ps = _calls(lb[1], "self.queue.push")
    if len(ps) != 1 or _pushed_type(ps[0]) != "CancelStage" or _u(_kw(ps[0].args[0]).get("stage_id")) != "s.id":
        _fail(O, lb[1], "a sibling is not cancelled by one self.queue.push(CancelStage(stage_id=s.id))")
    t = Tr(O, {"s.status": ("st", "status")}).term(lb[1].test.values[1])
    out.append(f"(* {O}:{lb[1].lineno} _cancel_deferred_choice_siblings: one queue.push(CancelStage) (own commit) per sibling with `{_u(lb[1].test.values[1])}` *)")
    out.append(f"Definition sibling_cancelled (st : status) : bool := {t}.\n")

    # ------------------------------------------------------------------ acquire_claim
    at = _find_class(_parse(T), "AtomicTransaction", T)
    ac = _find_func(at.body, "acquire_claim", T)
    src = _u(ac)
    ex = _calls(ac, "self._conn.execute")
    sqls = [" ".join(c.args[0].value.split()) if isinstance(c.args[0], ast.Constant) else _u(c.args[0]) for c in ex]
    kinds = []
    for s in sqls:
        if s.startswith("INSERT OR IGNORE INTO stage_claims"):
            kinds.append("I")
        elif s.startswith("SELECT stage_id FROM stage_claims WHERE execution_id = :execution_id AND claim_key = :claim_key"):
            kinds.append("S")
        elif s.startswith("SELECT status FROM stage_executions WHERE id = :id"):
            kinds.append("O")
        elif s.startswith("UPDATE stage_claims SET stage_id = :stage_id") and "AND stage_id = :owner_id" in s \
                and "execution_id = :execution_id" in s and "claim_key = :claim_key" in s:
            kinds.append("U")
        else:
            _fail(T, ac, f"acquire_claim: unknown statement {s[:60]}")
    if kinds != ["I", "S", "I", "O", "U"]:
        _fail(T, ac, f"acquire_claim statements are {kinds}, expected INSERT, SELECT, INSERT(retry), SELECT owner, UPDATE(steal)")
    tests = [_u(n.test) for n in ast.walk(ac) if isinstance(n, ast.If)]
    for need in ("cursor.rowcount == 1", "row is None", "owner_id == stage_id", "steal_if_owner_terminal", "owner_gone or owner_terminal"):
        if need not in tests:
            _fail(T, ac, f"acquire_claim: test `{need}` not found (tests: {tests})")
    if "owner_gone = owner_row is None" not in src or "owner_terminal = owner_row is not None and WorkflowStatus[owner_row[0]].is_complete" not in src:
        _fail(T, ac, "acquire_claim: steal condition is not `owner row missing or WorkflowStatus[...].is_complete`")
    rets = [_u(n.value) for n in sorted((n for n in ast.walk(ac) if isinstance(n, ast.Return)), key=lambda n: n.lineno)]
    if rets != ["True", "cursor.rowcount == 1", "True", "cursor.rowcount == 1", "False"]:
        _fail(T, ac, f"acquire_claim: return statements are {rets}")
    out.append(f"(* {T}: acquire_claim = INSERT OR IGNORE; rowcount==1 -> True; re-read; vanished -> retry insert; same owner -> True;")
    out.append("   steal_if_owner_terminal and (owner row missing or is_complete) -> UPDATE ... WHERE stage_id = :owner_id; else False *)")
    out.append("Definition acquire_claim_shape_ok : bool := true.")
    out.append("Definition steal_requires_owner_complete_or_missing : bool := true.\n")

    # ------------------------------------------------------------------ claims sweep, unique key
    cf = _find_func(_parse(P).body, "cleanup_completed_stage_claims", P)
    csrc = _u(cf)
    if "terminal = [s.name for s in WorkflowStatus if s.is_complete]" not in csrc:
        _fail(P, cf, "cleanup_completed_stage_claims: `terminal` is not [s.name for s in WorkflowStatus if s.is_complete]")
    sq = None
    for c in _calls(cf, "conn.execute"):
        if isinstance(c.args[0], ast.JoinedStr):
            sq = " ".join("".join(v.value if isinstance(v, ast.Constant) else "{%s}" % _u(v.value) for v in c.args[0].values).split())
            if len(c.args) < 2 or _u(c.args[1]) != "terminal":
                _fail(P, c, "the sweep's status list is not `terminal`")
    if sq is None or not (sq.startswith("DELETE FROM stage_claims WHERE execution_id IN ( SELECT id FROM pipeline_executions WHERE status IN ({placeholders}) )")):
        _fail(P, cf, f"cleanup_completed_stage_claims: unexpected SQL {sq!r}")
    if len(_calls(cf, "conn.execute")) != 1 or len(_calls(cf, "conn.commit")) != 1:
        _fail(P, cf, "cleanup_completed_stage_claims is not one DELETE + commit")
    out.append(f"(* {P}: cleanup_completed_stage_claims deletes the claims of executions whose status is_complete, nothing else *)")
    out.append("Definition sweep_deletes_only_complete_executions : bool := true.")
    gm = _u(_parse(G))
    flat = " ".join(gm.replace("\\n", " ").split())
    if "CREATE TABLE IF NOT EXISTS stage_claims" not in flat or "PRIMARY KEY (execution_id, claim_key)" not in flat:
        _fail(G, _parse(G), "stage_claims is not created with PRIMARY KEY (execution_id, claim_key)")
    out.append(f"(* {G}: stage_claims PRIMARY KEY (execution_id, claim_key): one owner per key and execution *)")
    out.append("Definition claim_key_unique_per_execution : bool := true.\n")

    # ------------------------------------------------------------------ CompleteStage: bump before push
    kc = _find_class(_parse(K), "CompleteStageHandler", K)
    hw = _find_func(kc.body, "_handle_with_retry", K)
    ujt = _calls(hw, "self._update_join_tracking")
    if len(ujt) != 1 or [_u(a) for a in ujt[0].args] != ["stage", "downstream_stages"]:
        _fail(K, hw, "_update_join_tracking(stage, downstream_stages) is not called exactly once")
    # the statement list that contains the call: the next transaction block in the same list pushes StartStage for activated downstreams
    holder = None
    for n in ast.walk(hw):
        for fld in ("body", "orelse"):
            lst = getattr(n, fld, None)
            if isinstance(lst, list):
                for i, st in enumerate(lst):
                    if isinstance(st, ast.Expr) and st.value is ujt[0]:
                        holder = (lst, i)
    if holder is None:
        _fail(K, ujt[0], "_update_join_tracking is not a statement of its own")
    lst, i = holder
    after = [st for st in lst[i + 1:] if _is_txn_with(st)]
    before = [st for st in lst[:i] if _writes(st) and "StartStage" in _u(st)]
    if len(after) != 1 or before:
        _fail(K, ujt[0], "the downstream StartStage push is not in the single transaction that FOLLOWS _update_join_tracking")
    aw = after[0]
    if not _calls(aw, "txn.store_stage") or not any(_pushed_type(c) == "StartStage" for c in _calls(aw, "txn.push_message")) \
            or len(_calls(aw, "txn.mark_message_processed")) != 1:
        _fail(K, aw, "the final CompleteStage transaction is not store_stage + mark + push StartStage(downstream)")
    hd = _find_func(kc.body, "handle", K)
    if "self.retry_on_concurrency_error" not in _u(hd) or "_handle_with_retry(message)" not in _u(hd):
        _fail(K, hd, "CompleteStageHandler.handle no longer wraps _handle_with_retry in retry_on_concurrency_error")
    out.append(f"(* {K}: _update_join_tracking (own commits) runs BEFORE the final transaction store_stage + mark + push StartStage(downstream) *)")
    out.append("Definition join_bump_before_push : bool := true.")
    out.append("Definition complete_stage_retries_whole_body : bool := true.\n")

    # ------------------------------------------------------------------ SignalStage persistent buffer
    sc = _find_class(_parse(S), "SignalStageHandler", S)
    sw = _find_func(sc.body, "_handle_with_retry", S)
    pb = [n for n in ast.walk(sw) if isinstance(n, ast.If) and _u(n.test) == "message.persistent"]
    if len(pb) != 1:
        _fail(S, sw, "`if message.persistent:` not found")
    ws = [n for n in ast.walk(ast.Module(body=pb[0].body, type_ignores=[])) if _is_txn_with(n)]
    if len(ws) != 1 or len(_calls(ws[0], "txn.store_stage")) != 1 or _kw(_calls(ws[0], "txn.store_stage")[0]) \
            or len(_calls(ws[0], "txn.mark_message_processed")) != 1 or _calls(ws[0], "txn.push_message"):
        _fail(S, pb[0], "the persistent-buffer branch is not one transaction store_stage(stage) + mark, without a push")
    if "stage.context['_buffered_signals'] = buffered" not in _u(pb[0]):
        _fail(S, pb[0], "the persistent-buffer branch no longer writes _buffered_signals")
    out.append(f"(* {S}: a persistent signal for a stage that is not SUSPENDED is buffered: store_stage(stage) (version CAS, no phase) + mark, no push *)")
    out.append("Definition signal_buffer_bumps_version_without_push : bool := true.\n")

    out.append("(* every structural fact above, as one boolean the theorems of props/C04.v and props/C11.v mention *)")
    out.append("Definition conc_shape_ok : bool :=\n  fast_paths_before_claim && claim_txn_is_acquire_mutex_acquire_choice_store && claim_uses_expected_phase &&\n"
               "  mutex_claim_steals && negb choice_claim_steals && negb mutex_requeue_has_budget && choice_loser_cancels_self_in_txn &&\n"
               "  sibling_cancel_before_plan && plan_commit_is_store_mark_push && acquire_claim_shape_ok &&\n"
               "  steal_requires_owner_complete_or_missing && sweep_deletes_only_complete_executions && claim_key_unique_per_execution &&\n"
               "  join_bump_before_push && complete_stage_retries_whole_body && signal_buffer_bumps_version_without_push.")
    from harness.translate import processor_failure_path
    out.append(processor_failure_path())
    return "\n".join(out) + "\n"


EMITTERS = {"Gen_Conc.v": gen_conc}
