"""Translator emitter for C16: src/stabilize/reducers.py  ->  coq/gen/Gen_Reducers.v.

Emits the built-in reducer registry `_BUILTIN_REDUCERS` as a Coq list of (name, implementation) where the
implementation is the referenced module-level function name, or the unparsed text of the lambda.
coq/props/C16.v states which model reducer (coq/model/Reducers.v) each registry entry was modelled as;
a reducer added, removed, renamed, re-pointed, or a changed lambda changes this file and that statement
is re-checked.  Fail-closed: anything but a dict literal of string keys mapping to a Name or Lambda,
or a Name that is not a module-level function, raises TranslateError.
"""
from __future__ import annotations

import ast

from harness.translate import HEADER, TranslateError, _fail, _find_assign, _parse

REL = "reducers.py"


def _cq(s: str) -> str:
    if not all(32 <= ord(c) < 127 for c in s):
        raise TranslateError(f"{REL}: non-ASCII text in reducer registry: {s!r}")
    return '"' + s.replace('"', '""') + '"%string'


def gen_reducers() -> str:
    mod = _parse(REL)
    node = _find_assign(mod, "_BUILTIN_REDUCERS", REL)
    if not isinstance(node, ast.Dict):
        _fail(REL, node, "_BUILTIN_REDUCERS is not a dict literal")
    funcs = {n.name for n in mod.body if isinstance(n, ast.FunctionDef)}
    rows = []
    for k, v in zip(node.keys, node.values):
        if not (isinstance(k, ast.Constant) and isinstance(k.value, str)):
            _fail(REL, node, "registry key is not a string literal")
        if isinstance(v, ast.Name):
            if v.id not in funcs:
                _fail(REL, v, f"registry entry {k.value!r} refers to {v.id!r}, not a module-level function")
            impl = v.id
        elif isinstance(v, ast.Lambda):
            impl = ast.unparse(v)
        else:
            _fail(REL, v, f"registry entry {k.value!r} is neither a function name nor a lambda")
        rows.append((k.value, impl))
    # get_reducer: custom registry first, then built-in (the model has no custom reducers)
    out = [HEADER.format(src=REL)]
    out.append("Definition gen_builtin_reducers : list (string * string) :=\n  [ "
               + ";\n    ".join(f"({_cq(a)}, {_cq(b)})" for a, b in rows) + " ].\n")
    return "\n".join(out)


EMITTERS = {"Gen_Reducers.v": gen_reducers}
