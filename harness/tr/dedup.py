"""Translator emitter for C09: queue/processor/mixins.py (_handle_message, _hydrate_deduplicator),
queue/processor/processor.py (__init__ hydration), queue/processor/config.py (defaults) and
queue/dedup.py (position / bit arithmetic, rotation threshold)  ->  coq/gen/Gen_Dedup.v.

Fail-closed: the statement skeleton of each function is matched exactly (logging calls and docstrings
are ignored); the *guards* and *arithmetic expressions* are translated generically from the AST, so a
changed guard or formula changes a generated definition that coq/proofs/DedupP.v / BloomP.v depend on.
"""
from __future__ import annotations

import ast
from fractions import Fraction

from harness.translate import HEADER, TranslateError, _fail, _find_class, _find_func, _parse, _dataclass_default


# ---------------------------------------------------------------------------------------------
# helpers
# ---------------------------------------------------------------------------------------------

def _is_log_or_doc(s: ast.stmt) -> bool:
    if isinstance(s, ast.Expr) and isinstance(s.value, ast.Constant) and isinstance(s.value.value, str):
        return True
    if isinstance(s, ast.Expr) and isinstance(s.value, ast.Call):
        f = s.value.func
        if isinstance(f, ast.Attribute) and isinstance(f.value, ast.Name) and f.value.id == "logger":
            return True
    return False


def _body(stmts) -> list[ast.stmt]:
    return [s for s in stmts if not _is_log_or_doc(s)]


def _bool_expr(rel: str, node: ast.expr, atoms: dict[str, str]) -> str:
    """and / or / not over the recognised atoms (matched by their unparsed text)."""
    txt = ast.unparse(node)
    if txt in atoms:
        return atoms[txt]
    if isinstance(node, ast.BoolOp):
        op = " && " if isinstance(node.op, ast.And) else " || "
        return "(" + op.join(_bool_expr(rel, v, atoms) for v in node.values) + ")"
    if isinstance(node, ast.UnaryOp) and isinstance(node.op, ast.Not):
        return "negb " + _bool_expr(rel, node.operand, atoms)
    _fail(rel, node, f"unexpected term in guard: {txt!r} (known atoms: {sorted(atoms)})")


def _arith_expr(rel: str, node: ast.expr, atoms: dict[str, str]) -> str:
    """+ * // % << | & over names / small non-negative integer constants, as N arithmetic."""
    txt = ast.unparse(node)
    if txt in atoms:
        return atoms[txt]
    if isinstance(node, ast.Constant) and isinstance(node.value, int) and not isinstance(node.value, bool) and 0 <= node.value < 4096:
        return f"{node.value}%N"
    if isinstance(node, ast.BinOp):
        a, b = _arith_expr(rel, node.left, atoms), _arith_expr(rel, node.right, atoms)
        ops = {ast.Add: "N.add", ast.Mult: "N.mul", ast.FloorDiv: "N.div", ast.Mod: "N.modulo",
               ast.LShift: "N.shiftl", ast.BitOr: "N.lor", ast.BitAnd: "N.land"}
        for k, v in ops.items():
            if isinstance(node.op, k):
                return f"({v} {a} {b})"
    _fail(rel, node, f"unexpected term in arithmetic expression: {txt!r}")


def _expect(rel: str, node: ast.AST, cond: bool, why: str):
    if not cond:
        _fail(rel, node, why)


def _is_call_stmt(s: ast.stmt, text: str) -> bool:
    return isinstance(s, ast.Expr) and ast.unparse(s.value) == text


# ---------------------------------------------------------------------------------------------
# mixins.py
# ---------------------------------------------------------------------------------------------

def _handle_message(out: list[str]) -> None:
    rel = "queue/processor/mixins.py"
    mod = _parse(rel)
    cls = _find_class(mod, "QueueProcessorMixin", rel)
    f = _find_func(cls.body, "_handle_message", rel)
    b = _body(f.body)
    _expect(rel, f, len(b) == 8, f"_handle_message has {len(b)} top-level statements, expected 8")
    _expect(rel, b[0], ast.unparse(b[0]) == "message_type = type(message)", "expected message_type = type(message)")
    _expect(rel, b[1], ast.unparse(b[1]) == "handler = self._handlers.get(message_type)", "expected handler lookup")
    _expect(rel, b[2], isinstance(b[2], ast.If) and ast.unparse(b[2].test) == "handler is None"
            and isinstance(b[2].body[-1], ast.Raise) and not b[2].orelse, "expected `if handler is None: raise`")
    _expect(rel, b[3], ast.unparse(b[3]) == "message_id = getattr(message, 'message_id', None)", "expected message_id = getattr(...)")
    _expect(rel, b[4], ast.unparse(b[4]).startswith("execution_id = getattr(message, 'execution_id'"), "expected execution_id = getattr(...)")

    outer_atoms = {"self.config.enable_deduplication": "enable", "message_id is not None": "has_id"}
    # ---- first block: duplicate check + rotation (+ optional early mark)
    blk = b[5]
    _expect(rel, blk, isinstance(blk, ast.If) and not blk.orelse, "expected the dedup `if` block")
    out.append("(* mixins.py:%d  `if %s:`  -- duplicate check + rotation block *)" % (blk.lineno, ast.unparse(blk.test)))
    out.append(f"Definition dedup_on_guard (enable has_id : bool) : bool := {_bool_expr(rel, blk.test, outer_atoms)}.")
    bb = _body(blk.body)
    _expect(rel, blk, len(bb) in (4, 5), f"dedup block has {len(bb)} statements, expected 4 (or 5 with an early mark_seen)")
    _expect(rel, bb[0], ast.unparse(bb[0]) == "dedup = get_deduplicator()", "expected dedup = get_deduplicator()")
    _expect(rel, bb[1], ast.unparse(bb[1]) == "trust_negative = getattr(self.config, 'dedup_trust_negative_cache', False)",
            "expected trust_negative = getattr(self.config, 'dedup_trust_negative_cache', False)")
    chk = bb[2]
    _expect(rel, chk, isinstance(chk, ast.If) and not chk.orelse, "expected the duplicate test `if`")
    consult_atoms = {"dedup.maybe_seen(message_id)": "seen", "trust_negative": "trust", "dedup.authoritative": "auth"}
    out.append("(* mixins.py:%d  `if %s:`  -- when true the durable store is consulted *)" % (chk.lineno, ast.unparse(chk.test)))
    out.append(f"Definition dup_consult_guard (seen trust auth : bool) : bool := {_bool_expr(rel, chk.test, consult_atoms)}.")
    cb = _body(chk.body)
    _expect(rel, chk, len(cb) == 1 and isinstance(cb[0], ast.If) and not cb[0].orelse, "expected one nested `if` under the duplicate test")
    skip = cb[0]
    skip_atoms = {"self._store is not None": "has_store", "self._store.is_message_processed(message_id)": "processed"}
    out.append("(* mixins.py:%d  `if %s: return`  -- the skip *)" % (skip.lineno, ast.unparse(skip.test)))
    out.append(f"Definition dup_skip_guard (has_store processed : bool) : bool := {_bool_expr(rel, skip.test, skip_atoms)}.")
    sb = _body(skip.body)
    _expect(rel, skip, len(sb) == 1 and isinstance(sb[0], ast.Return) and sb[0].value is None, "the skip branch must be a bare `return`")
    rot = bb[3]
    _expect(rel, rot, isinstance(rot, ast.If) and not rot.orelse, "expected the rotation `if`")
    t = rot.test
    _expect(rel, rot, isinstance(t, ast.Call) and ast.unparse(t.func) == "dedup.should_reset" and not t.args
            and len(t.keywords) == 1 and t.keywords[0].arg == "threshold" and isinstance(t.keywords[0].value, ast.Constant),
            "expected `if dedup.should_reset(threshold=<const>):`")
    thr = Fraction(str(t.keywords[0].value.value))
    _expect(rel, rot, 0 < thr < 1, "rotation threshold outside (0,1)")
    rb = _body(rot.body)
    _expect(rel, rot, len(rb) == 2 and _is_call_stmt(rb[0], "dedup.reset()") and _is_call_stmt(rb[1], "self._hydrate_deduplicator()"),
            "rotation must be `dedup.reset(); self._hydrate_deduplicator()`")
    out.append("(* mixins.py:%d  rotation: should_reset(threshold=%s) -> reset(); _hydrate_deduplicator() *)" % (rot.lineno, thr))
    out.append(f"Definition rotation_threshold_num : N := {thr.numerator}%N.")
    out.append(f"Definition rotation_threshold_den : N := {thr.denominator}%N.")
    early = False
    if len(bb) == 5:
        _expect(rel, bb[4], _is_call_stmt(bb[4], "dedup.mark_seen(message_id)"), "5th statement of the dedup block must be dedup.mark_seen(message_id)")
        early = True
    out.append("(* is dedup.mark_seen(message_id) executed (after the rotation) BEFORE handler.handle(message)? *)")
    out.append(f"Definition early_mark : bool := {'true' if early else 'false'}.")

    # ---- handler call
    _expect(rel, b[6], _is_call_stmt(b[6], "handler.handle(message)"), "expected handler.handle(message)")

    # ---- second block: marks
    mk = b[7]
    _expect(rel, mk, isinstance(mk, ast.If) and not mk.orelse, "expected the post-handler mark `if` block")
    out.append("(* mixins.py:%d  `if %s:`  -- post-handler marks *)" % (mk.lineno, ast.unparse(mk.test)))
    out.append(f"Definition mark_guard (enable has_id : bool) : bool := {_bool_expr(rel, mk.test, outer_atoms)}.")
    mb = _body(mk.body)
    _expect(rel, mk, len(mb) in (2, 3) and ast.unparse(mb[0]) == "dedup = get_deduplicator()", "mark block must start with dedup = get_deduplicator()")
    late = False
    if len(mb) == 3:
        _expect(rel, mb[1], _is_call_stmt(mb[1], "dedup.mark_seen(message_id)"), "expected dedup.mark_seen(message_id)")
        late = True
    out.append(f"Definition late_mark : bool := {'true' if late else 'false'}.")
    sm = mb[-1]
    _expect(rel, sm, isinstance(sm, ast.If) and not sm.orelse, "expected `if self._store is not None:` around the durable mark")
    out.append(f"Definition mark_store_guard (has_store : bool) : bool := {_bool_expr(rel, sm.test, {'self._store is not None': 'has_store'})}.")
    smb = _body(sm.body)
    ok = (len(smb) == 1 and isinstance(smb[0], ast.Expr) and isinstance(smb[0].value, ast.Call)
          and ast.unparse(smb[0].value.func) == "self._store.mark_message_processed")
    _expect(rel, sm, ok, "expected self._store.mark_message_processed(...) as the durable mark")
    kw = {k.arg: ast.unparse(k.value) for k in smb[0].value.keywords}
    args = [ast.unparse(a) for a in smb[0].value.args]
    _expect(rel, smb[0], kw.get("message_id") == "message_id" or args[:1] == ["message_id"], "the durable mark must be for message_id")

    # ---- _hydrate_deduplicator
    h = _find_func(cls.body, "_hydrate_deduplicator", rel)
    hb = _body(h.body)
    _expect(rel, h, len(hb) == 7, f"_hydrate_deduplicator has {len(hb)} statements, expected 7")
    _expect(rel, hb[0], isinstance(hb[0], ast.If) and ast.unparse(hb[0].test) == "self._store is None"
            and ast.unparse(hb[0].body[0]) == "return", "expected `if self._store is None: return`")
    _expect(rel, hb[1], ast.unparse(hb[1]) == "dedup = get_deduplicator()", "expected dedup = get_deduplicator()")
    _expect(rel, hb[2], ast.unparse(hb[2]) == "capacity = dedup.expected_items", "expected capacity = dedup.expected_items")
    tr = hb[3]
    _expect(rel, tr, isinstance(tr, ast.Try) and len(_body(tr.body)) == 1, "expected try: ids = ...get_processed_message_ids(limit=...)")
    asg = _body(tr.body)[0]
    ok = (isinstance(asg, ast.Assign) and ast.unparse(asg.targets[0]) == "ids" and isinstance(asg.value, ast.Call)
          and ast.unparse(asg.value.func) == "self._store.get_processed_message_ids" and len(asg.value.keywords) == 1
          and asg.value.keywords[0].arg == "limit" and not asg.value.args)
    _expect(rel, asg, ok, "expected ids = self._store.get_processed_message_ids(limit=<expr>)")
    out.append("(* mixins.py:%d  hydration fetches `limit=%s` ids *)" % (asg.lineno, ast.unparse(asg.value.keywords[0].value)))
    out.append(f"Definition hydrate_fetch_limit (capacity : N) : N := {_arith_expr(rel, asg.value.keywords[0].value, {'capacity': 'capacity'})}.")
    _expect(rel, hb[4], isinstance(hb[4], ast.If) and ast.unparse(hb[4].test) == "ids is None" and ast.unparse(hb[4].body[0]) == "return",
            "expected `if ids is None: return`")
    tm = hb[5]
    _expect(rel, tm, isinstance(tm, ast.If) and isinstance(tm.test, ast.Compare) and len(tm.test.ops) == 1
            and isinstance(_body(tm.body)[-1], ast.Return) and not tm.orelse, "expected `if len(ids) > capacity: ... return`")
    names = {"len(ids)": "n_ids", "capacity": "capacity"}
    l, r = ast.unparse(tm.test.left), ast.unparse(tm.test.comparators[0])
    _expect(rel, tm, l in names and r in names, "truncation test must compare len(ids) and capacity")
    cmpop = {ast.Gt: lambda a, b: f"N.ltb {b} {a}", ast.GtE: lambda a, b: f"N.leb {b} {a}",
             ast.Lt: lambda a, b: f"N.ltb {a} {b}", ast.LtE: lambda a, b: f"N.leb {a} {b}"}
    fn = next((v for k, v in cmpop.items() if isinstance(tm.test.ops[0], k)), None)
    _expect(rel, tm, fn is not None, "unexpected comparison operator in the truncation test")
    out.append("(* mixins.py:%d  `if %s: return`  -- no authority when the id list may be truncated *)" % (tm.lineno, ast.unparse(tm.test)))
    out.append(f"Definition hydrate_too_many (n_ids capacity : N) : bool := {fn(names[l], names[r])}.")
    _expect(rel, hb[6], ast.unparse(hb[6]) == "count = dedup.hydrate(ids)", "expected count = dedup.hydrate(ids)")


def _processor_init(out: list[str]) -> None:
    rel = "queue/processor/processor.py"
    mod = _parse(rel)
    cls = _find_class(mod, "QueueProcessor", rel)
    f = _find_func(cls.body, "__init__", rel)
    hits = [s for s in f.body if isinstance(s, ast.If) and any(_is_call_stmt(x, "self._hydrate_deduplicator()") for x in s.body)]
    _expect(rel, f, len(hits) == 1 and len(_body(hits[0].body)) == 1 and not hits[0].orelse,
            "QueueProcessor.__init__ must contain exactly one `if ...: self._hydrate_deduplicator()`")
    # the store must have been assigned before
    pos = f.body.index(hits[0])
    _expect(rel, f, any(ast.unparse(s) == "self._store = store" for s in f.body[:pos]), "self._store must be assigned before hydration")
    atoms = {"self.config.enable_deduplication": "enable", "store is not None": "has_store", "self._store is not None": "has_store"}
    out.append("(* processor.py:%d  `if %s: self._hydrate_deduplicator()` in QueueProcessor.__init__ *)" % (hits[0].lineno, ast.unparse(hits[0].test)))
    out.append(f"Definition init_hydrate_guard (enable has_store : bool) : bool := {_bool_expr(rel, hits[0].test, atoms)}.")


def _config(out: list[str]) -> None:
    rel = "queue/processor/config.py"
    en = _dataclass_default(rel, "QueueProcessorConfig", "enable_deduplication")
    tr = _dataclass_default(rel, "QueueProcessorConfig", "dedup_trust_negative_cache")
    sw = _dataclass_default(rel, "QueueProcessorConfig", "retention_sweep_interval_seconds")
    if not isinstance(en, bool) or not isinstance(tr, bool):
        raise TranslateError(f"{rel}: dedup flags are not boolean constants")
    if not isinstance(sw, (int, float)) or isinstance(sw, bool):
        raise TranslateError(f"{rel}: retention_sweep_interval_seconds default is not a number")
    out.append("(* config.py defaults *)")
    out.append(f"Definition enable_deduplication_default : bool := {'true' if en else 'false'}.")
    out.append(f"Definition dedup_trust_negative_cache_default : bool := {'true' if tr else 'false'}.")
    out.append(f"Definition retention_sweep_default_off : bool := {'true' if sw <= 0 else 'false'}.")


# ---------------------------------------------------------------------------------------------
# dedup.py
# ---------------------------------------------------------------------------------------------

def _bloom(out: list[str]) -> None:
    rel = "queue/dedup.py"
    mod = _parse(rel)
    cls = _find_class(mod, "BloomDeduplicator", rel)
    # _get_hash_positions: pos = <expr over h1 h2 i self._size> inside `for i in range(self._num_hashes)`
    f = _find_func(cls.body, "_get_hash_positions", rel)
    loops = [s for s in f.body if isinstance(s, ast.For)]
    _expect(rel, f, len(loops) == 1 and ast.unparse(loops[0].iter) == "range(self._num_hashes)" and ast.unparse(loops[0].target) == "i",
            "expected one loop `for i in range(self._num_hashes)`")
    lb = _body(loops[0].body)
    _expect(rel, loops[0], len(lb) == 2 and isinstance(lb[0], ast.Assign) and ast.unparse(lb[0].targets[0]) == "pos"
            and _is_call_stmt(lb[1], "positions.append(pos)"), "loop body must be `pos = ...; positions.append(pos)`")
    out.append("(* dedup.py:%d  pos = %s *)" % (lb[0].lineno, ast.unparse(lb[0].value)))
    out.append("Definition bloom_pos (h1 h2 i m : N) : N := "
               + _arith_expr(rel, lb[0].value, {"h1": "h1", "h2": "h2", "i": "i", "self._size": "m"}) + ".")
    rets = [s for s in f.body if isinstance(s, ast.Return)]
    _expect(rel, f, len(rets) == 1 and ast.unparse(rets[0]) == "return positions", "expected `return positions`")
    # _get_bit / _set_bit
    g = _body(_find_func(cls.body, "_get_bit", rel).body)
    s = _body(_find_func(cls.body, "_set_bit", rel).body)
    for nm, bdy in (("_get_bit", g), ("_set_bit", s)):
        _expect(rel, bdy[0], len(bdy) == 3 and isinstance(bdy[0], ast.Assign) and ast.unparse(bdy[0].targets[0]) == "byte_idx"
                and isinstance(bdy[1], ast.Assign) and ast.unparse(bdy[1].targets[0]) == "bit_idx",
                f"{nm}: expected byte_idx = ...; bit_idx = ...; <use>")
    for k in (0, 1):
        _expect(rel, s[k], ast.unparse(s[k].value) == ast.unparse(g[k].value), "_set_bit and _get_bit compute the indices differently")
    out.append("(* dedup.py:%d  byte_idx = %s ; bit_idx = %s *)" % (g[0].lineno, ast.unparse(g[0].value), ast.unparse(g[1].value)))
    out.append(f"Definition byte_idx (pos : N) : N := {_arith_expr(rel, g[0].value, {'pos': 'pos'})}.")
    out.append(f"Definition bit_idx (pos : N) : N := {_arith_expr(rel, g[1].value, {'pos': 'pos'})}.")
    _expect(rel, g[2], isinstance(g[2], ast.Return) and isinstance(g[2].value, ast.Call) and ast.unparse(g[2].value.func) == "bool"
            and len(g[2].value.args) == 1, "_get_bit must `return bool(<expr>)`")
    atoms = {"self._bit_array[byte_idx]": "byte", "bit_idx": "bit_idx"}
    out.append("(* dedup.py:%d  return bool(%s) *)" % (g[2].lineno, ast.unparse(g[2].value.args[0])))
    out.append(f"Definition get_bit_expr (byte bit_idx : N) : N := {_arith_expr(rel, g[2].value.args[0], atoms)}.")
    _expect(rel, s[2], isinstance(s[2], ast.AugAssign) and ast.unparse(s[2].target) == "self._bit_array[byte_idx]"
            and isinstance(s[2].op, ast.BitOr), "_set_bit must be `self._bit_array[byte_idx] |= <expr>`")
    out.append("(* dedup.py:%d  self._bit_array[byte_idx] |= %s *)" % (s[2].lineno, ast.unparse(s[2].value)))
    out.append(f"Definition set_bit_expr (byte bit_idx : N) : N := N.lor byte {_arith_expr(rel, s[2].value, atoms)}.")
    # bytearray length
    init = _find_func(cls.body, "__init__", rel)
    arr = [x for x in ast.walk(init) if isinstance(x, ast.Assign) and ast.unparse(x.targets[0]) == "self._bit_array"]
    _expect(rel, init, len(arr) == 1 and isinstance(arr[0].value, ast.Call) and ast.unparse(arr[0].value.func) == "bytearray"
            and len(arr[0].value.args) == 1, "expected self._bit_array = bytearray(<expr>)")
    out.append("(* dedup.py:%d  self._bit_array = bytearray(%s) *)" % (arr[0].lineno, ast.unparse(arr[0].value.args[0])))
    out.append(f"Definition bit_array_len (m : N) : N := {_arith_expr(rel, arr[0].value.args[0], {'self._size': 'm'})}.")
    rs = _find_func(cls.body, "reset", rel)
    arr2 = [x for x in ast.walk(rs) if isinstance(x, ast.Assign) and ast.unparse(x.targets[0]) == "self._bit_array"]
    _expect(rel, rs, len(arr2) == 1 and ast.unparse(arr2[0].value) == ast.unparse(arr[0].value), "reset() must re-create the same bytearray")
    # should_reset: `return self.fill_ratio > threshold` (age part = oracle flag `aged` in the model)
    sr = _body(_find_func(cls.body, "should_reset", rel).body)
    _expect(rel, sr[-1], ast.unparse(sr[-1]) == "return self.fill_ratio > threshold", "should_reset must end with `return self.fill_ratio > threshold`")
    _expect(rel, sr[0], len(sr) == 3 and ast.unparse(sr[0]) == "age = time.monotonic() - self._creation_time"
            and isinstance(sr[1], ast.If) and ast.unparse(sr[1].test) == "age > self._max_age_seconds"
            and ast.unparse(sr[1].body[0]) == "return True", "should_reset: unexpected age test")
    fr = _body(_find_func(cls.body, "fill_ratio", rel).body)
    _expect(rel, fr[0], len(fr) == 1 and isinstance(fr[0], ast.With) and len(fr[0].body) == 2
            and ast.unparse(fr[0].body[0]) == "set_bits = sum((bin(b).count('1') for b in self._bit_array))"
            and ast.unparse(fr[0].body[1]) == "return set_bits / self._size", "fill_ratio: unexpected body")


def gen_dedup() -> str:
    out = [HEADER.format(src="queue/processor/mixins.py, queue/processor/processor.py, queue/processor/config.py, queue/dedup.py")
           + "From Coq Require Import NArith.\n"]
    _handle_message(out)
    _processor_init(out)
    _config(out)
    _bloom(out)
    return "\n".join(out) + "\n"


EMITTERS = {"Gen_Dedup.v": gen_dedup}
