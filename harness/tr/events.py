"""Translator emitter for C12 / C13  ->  coq/gen/Gen_Events.v.

From  events/base.py                    EventType / EntityType members
      events/replay.py                  _apply_event dispatch, the event-type -> replayed-status table of
                                        _apply_workflow_event / _apply_stage_event / _apply_task_event,
                                        the fields _load_state_from_snapshot restores (vs. WorkflowState's fields)
      events/recorder/*_events.py       which EventType every record_* method creates, for which entity type,
                                        and whether its data dict carries "status": <obj>.status.name
      handlers/*.py                     for every handler that records events: which record_* method each
                                        lifecycle step uses (the if/elif decision on the status), and whether
                                        each record call is lexically INSIDE a `with self.repository.transaction(...)`
                                        block, AFTER the handler's transaction blocks, or BEFORE them.

coq/model/EventsM.v is parameterised by these definitions: moving `record_completion_event()` out of the
with-block, dropping the "status" key from a recorder's payload, or changing what replay does with an event
type changes a generated definition and the C12 / C13 theorems are re-checked against it.

Fail-closed: anything outside the recognised shapes raises TranslateError.
"""
from __future__ import annotations

import ast

from harness import translate as T
from harness.translate import TranslateError

STATUS_NAMES = ["NOT_STARTED", "RUNNING", "PAUSED", "SUSPENDED", "SUCCEEDED", "FAILED_CONTINUE", "TERMINAL",
                "CANCELED", "REDIRECT", "STOPPED", "SKIPPED", "BUFFERED"]


def _b(x: bool) -> str:
    return "true" if x else "false"


# ---------------------------------------------------------------------------------------------
# events/base.py
# ---------------------------------------------------------------------------------------------

def _enums(out: list[str]) -> tuple[list[str], list[str]]:
    rel = "events/base.py"
    mod = T._parse(rel)
    kinds = []
    for nm, val in T._enum_members(T._find_class(mod, "EventType", rel), rel):
        if not (isinstance(val, ast.Constant) and isinstance(val.value, str)):
            T._fail(rel, val, f"EventType.{nm} is not a string constant")
        kinds.append((nm, val.value))
    etypes = [nm for nm, _ in T._enum_members(T._find_class(mod, "EntityType", rel), rel)]
    if etypes != ["WORKFLOW", "STAGE", "TASK"]:
        raise TranslateError(f"{rel}: EntityType members are {etypes}, expected WORKFLOW/STAGE/TASK")
    out.append("(* events/base.py: EventType *)")
    out.append("Inductive ekind : Type :=\n" + "\n".join(f"  | E_{n}" for n, _ in kinds) + ".")
    out.append("Definition all_ekinds : list ekind := [" + "; ".join(f"E_{n}" for n, _ in kinds) + "].")
    out.append("Definition ekind_eqb (a b : ekind) : bool :=\n  match a, b with\n"
               + "\n".join(f"  | E_{n}, E_{n} => true" for n, _ in kinds) + "\n  | _, _ => false\n  end.")
    out.append("Definition ekind_value (k : ekind) : string :=\n  match k with\n"
               + "\n".join(f'  | E_{n} => "{v}"%string' for n, v in kinds) + "\n  end.")
    out.append("(* events/base.py: EntityType *)")
    out.append("Inductive etype : Type := ET_WORKFLOW | ET_STAGE | ET_TASK.")
    out.append("Definition etype_eqb (a b : etype) : bool :=\n  match a, b with\n  | ET_WORKFLOW, ET_WORKFLOW => true\n"
               "  | ET_STAGE, ET_STAGE => true\n  | ET_TASK, ET_TASK => true\n  | _, _ => false\n  end.")
    return [n for n, _ in kinds], etypes


# ---------------------------------------------------------------------------------------------
# events/replay.py
# ---------------------------------------------------------------------------------------------

def _is_event_type_test(test: ast.expr) -> str | None:
    """event.event_type == EventType.X  ->  X"""
    if (isinstance(test, ast.Compare) and len(test.ops) == 1 and isinstance(test.ops[0], ast.Eq)
            and ast.unparse(test.left) == "event.event_type"
            and isinstance(test.comparators[0], ast.Attribute) and ast.unparse(test.comparators[0].value) == "EventType"):
        return test.comparators[0].attr
    return None


def _status_assign(rel: str, stmt: ast.stmt, target_txt: str):
    """<target> = "LIT"  |  <target> = event.data.get("status", "LIT")   -> ("const"|"data", LIT) ; else None"""
    if not (isinstance(stmt, ast.Assign) and len(stmt.targets) == 1 and ast.unparse(stmt.targets[0]) == target_txt):
        return None
    v = stmt.value
    if isinstance(v, ast.Constant) and isinstance(v.value, str):
        if v.value not in STATUS_NAMES:
            T._fail(rel, stmt, f"status literal {v.value!r} is not a WorkflowStatus name")
        return ("const", v.value)
    if (isinstance(v, ast.Call) and ast.unparse(v.func) == "event.data.get" and len(v.args) == 2 and not v.keywords
            and isinstance(v.args[0], ast.Constant) and v.args[0].value == "status"
            and isinstance(v.args[1], ast.Constant) and isinstance(v.args[1].value, str)):
        if v.args[1].value not in STATUS_NAMES:
            T._fail(rel, stmt, f"default status {v.args[1].value!r} is not a WorkflowStatus name")
        return ("data", v.args[1].value)
    T._fail(rel, stmt, f"unrecognised status assignment: {ast.unparse(stmt)!r}")


def _status_table(rel: str, fn: ast.FunctionDef, target_txt: str, kinds: list[str]) -> dict[str, tuple]:
    """walk the if/elif chain on event.event_type; return kind -> status effect; also the other fields each branch
    writes (emitted as a comment + as a list of strings so that a new write shows up in the diff)"""
    chain = [s for s in fn.body if isinstance(s, ast.If) and _is_event_type_test(s.test)]
    if len(chain) != 1:
        T._fail(rel, fn, f"{fn.name}: expected exactly one if/elif chain on event.event_type, found {len(chain)}")
    # no status write outside the chain
    for s in fn.body:
        if s is not chain[0]:
            for n in ast.walk(s):
                if isinstance(n, ast.Assign) and any(ast.unparse(t) == target_txt for t in n.targets):
                    T._fail(rel, n, f"{fn.name}: status written outside the event-type chain")
    table: dict[str, tuple] = {}
    writes: dict[str, list[str]] = {}
    node = chain[0]
    while True:
        k = _is_event_type_test(node.test)
        if k is None:
            T._fail(rel, node, f"{fn.name}: branch test is not `event.event_type == EventType.X`")
        if k not in kinds:
            T._fail(rel, node, f"{fn.name}: EventType.{k} unknown")
        if k in table:
            T._fail(rel, node, f"{fn.name}: EventType.{k} tested twice")
        eff = ("none", None)
        ws = []
        for st in node.body:
            r = _status_assign(rel, st, target_txt)
            if r is not None:
                if eff[0] != "none":
                    T._fail(rel, st, f"{fn.name}: status assigned twice in the {k} branch")
                eff = r
            else:
                for n in ast.walk(st):
                    if isinstance(n, ast.Assign) and any(ast.unparse(t) == target_txt for t in n.targets):
                        T._fail(rel, n, f"{fn.name}: nested status write in the {k} branch")
                ws.append(" ".join(ast.unparse(st).split()))
        table[k] = eff
        writes[k] = ws
        if not node.orelse:
            break
        if len(node.orelse) == 1 and isinstance(node.orelse[0], ast.If):
            node = node.orelse[0]
            continue
        T._fail(rel, node, f"{fn.name}: the event-type chain ends in an `else` branch (unknown kinds must be ignored)")
    return table, writes


def _replay(out: list[str], kinds: list[str]) -> None:
    rel = "events/replay.py"
    mod = T._parse(rel)
    cls = T._find_class(mod, "EventReplayer", rel)
    # dispatch
    ap = T._find_func(cls.body, "_apply_event", rel)
    body = [s for s in ap.body if not (isinstance(s, ast.Expr) and isinstance(s.value, ast.Constant))]
    if not (len(body) == 2 and ast.unparse(body[0]) == "event = get_event_migrator().migrate(event, strict=False)"
            and isinstance(body[1], ast.If)):
        T._fail(rel, ap, "_apply_event: expected `event = get_event_migrator().migrate(event, strict=False)` then one if/elif chain")
    disp = []
    node = body[1]
    while True:
        t = node.test
        if not (isinstance(t, ast.Compare) and isinstance(t.ops[0], ast.Eq) and ast.unparse(t.left) == "event.entity_type"
                and ast.unparse(t.comparators[0]).startswith("EntityType.")):
            T._fail(rel, node, "_apply_event: branch test is not `event.entity_type == EntityType.X`")
        if not (len(node.body) == 1 and isinstance(node.body[0], ast.Expr) and isinstance(node.body[0].value, ast.Call)):
            T._fail(rel, node, "_apply_event: branch body is not a single call")
        disp.append((t.comparators[0].attr, ast.unparse(node.body[0].value.func)))
        if not node.orelse:
            break
        if len(node.orelse) == 1 and isinstance(node.orelse[0], ast.If):
            node = node.orelse[0]
        else:
            T._fail(rel, node, "_apply_event: chain ends in an else branch")
    want = [("WORKFLOW", "self._apply_workflow_event"), ("STAGE", "self._apply_stage_event"), ("TASK", "self._apply_task_event")]
    if disp != want:
        T._fail(rel, ap, f"_apply_event dispatch is {disp}, expected {want}")

    tables = {}
    for et, fname, target in (("WORKFLOW", "_apply_workflow_event", "state.status"),
                              ("STAGE", "_apply_stage_event", "stage['status']"),
                              ("TASK", "_apply_task_event", "task['status']")):
        tables[et] = _status_table(rel, T._find_func(cls.body, fname, rel), target, kinds)
    out.append("(* events/replay.py: what _apply_<entity>_event does to the entity's status, per event type *)")
    out.append("Inductive seffect : Type := SE_none | SE_const (s : status) | SE_data (dflt : status).")
    lines = ["Definition status_effect (t : etype) (k : ekind) : seffect :=", "  match t, k with"]
    for et in ("WORKFLOW", "STAGE", "TASK"):
        for k, (how, lit) in tables[et][0].items():
            if how == "const":
                lines.append(f"  | ET_{et}, E_{k} => SE_const {lit}")
            elif how == "data":
                lines.append(f"  | ET_{et}, E_{k} => SE_data {lit}")
    lines.append("  | _, _ => SE_none\n  end.")
    out.append("\n".join(lines))
    out.append("(* the event types each _apply_<entity>_event has a branch for (all other types leave every field alone,\n"
               "   except that a stage/task entry is created) and the non-status statements of each branch *)")
    for et in ("WORKFLOW", "STAGE", "TASK"):
        out.append(f"Definition handled_kinds_{et.lower()} : list ekind := [" + "; ".join(f"E_{k}" for k in tables[et][0]) + "].")
        for k, ws in tables[et][1].items():
            for w in ws:
                out.append(f"(*   {et}.{k}: {w.replace('(*', '( *').replace('*)', '* )')} *)")
    # branch bodies as strings: the hand-written field effects of coq/model/EventsM.v are checked against this digest
    digest = []
    for et in ("WORKFLOW", "STAGE", "TASK"):
        for k, ws in tables[et][1].items():
            digest.append(f"{et}.{k}: " + " ;; ".join(ws))
    out.append("Definition replay_branch_digest : list string := [\n  " +
               ";\n  ".join('"' + d.replace('"', "'") + '"%string' for d in digest) + "].")

    # snapshot restore
    ws_cls = T._find_class(mod, "WorkflowState", rel)
    fields = [n.target.id for n in ws_cls.body if isinstance(n, ast.AnnAssign) and isinstance(n.target, ast.Name)]
    ld = T._find_func(cls.body, "_load_state_from_snapshot", rel)
    rets = [s for s in ld.body if isinstance(s, ast.Return)]
    if not (len(rets) == 1 and isinstance(rets[0].value, ast.Call) and ast.unparse(rets[0].value.func) == "WorkflowState"
            and not rets[0].value.args):
        T._fail(rel, ld, "_load_state_from_snapshot: expected a single `return WorkflowState(<keywords>)`")
    restored = []
    for kw in rets[0].value.keywords:
        if kw.arg is None or kw.arg not in fields:
            T._fail(rel, ld, f"_load_state_from_snapshot: unexpected keyword {kw.arg}")
        txt = ast.unparse(kw.value)
        if kw.arg == "workflow_id":
            if txt != "snapshot.entity_id":
                T._fail(rel, kw.value, "workflow_id is not restored from snapshot.entity_id")
        elif not txt.startswith(f"state_dict.get('{kw.arg}'"):
            T._fail(rel, kw.value, f"field {kw.arg} is not restored from state_dict.get('{kw.arg}', ...)")
        restored.append(kw.arg)
    out.append("(* events/replay.py: WorkflowState fields, and those _load_state_from_snapshot restores *)")
    out.append("Definition workflow_state_fields : list string := [" + "; ".join(f'"{f}"%string' for f in fields) + "].")
    out.append("Definition snapshot_restored_fields : list string := [" + "; ".join(f'"{f}"%string' for f in restored) + "].")
    for f in fields:
        out.append(f"Definition snapshot_restores_{f} : bool := {_b(f in restored)}.")

    # rebuild_workflow_state: the guards
    rb = T._find_func(cls.body, "rebuild_workflow_state", rel)
    src = ast.unparse(rb)
    need = ["snapshot and (as_of_sequence is None or snapshot.sequence <= as_of_sequence)",
            "start_sequence = snapshot.sequence",
            "self._event_store.get_events_for_workflow(workflow_id, start_sequence) if e.sequence <= as_of_sequence",
            "for event in events:\n        self._apply_event(state, event)"]
    for n in need:
        if n not in src:
            T._fail(rel, rb, f"rebuild_workflow_state: expected fragment not found: {n!r}")
    out.append("(* rebuild_workflow_state: snapshot used iff `as_of is None or snapshot.sequence <= as_of`; events with\n"
               "   start_sequence < sequence (store query) and sequence <= as_of are folded with _apply_event -- shape checked *)")
    out.append("Definition rebuild_shape_checked : bool := true.")


# ---------------------------------------------------------------------------------------------
# events/store/sqlite/events.py : the query of get_events_for_workflow
# ---------------------------------------------------------------------------------------------

def _store(out: list[str]) -> None:
    rel = "events/store/sqlite/events.py"
    mod = T._parse(rel)
    cls = T._find_class(mod, "SqliteEventStoreMixin", rel)
    fn = T._find_func(cls.body, "get_events_for_workflow", rel)
    sqls = [" ".join(n.value.split()) for n in ast.walk(fn) if isinstance(n, ast.Constant) and isinstance(n.value, str) and "SELECT" in n.value]
    if sqls != ["SELECT * FROM events WHERE workflow_id = ? AND sequence > ? ORDER BY sequence ASC"]:
        T._fail(rel, fn, f"get_events_for_workflow: unexpected SQL {sqls}")
    rel2 = "events/store/sqlite/schema.py"
    mod2 = T._parse(rel2)
    schema = T._find_assign(mod2, "EVENTS_SCHEMA", rel2)
    if not (isinstance(schema, ast.Constant) and "sequence INTEGER PRIMARY KEY AUTOINCREMENT" in " ".join(schema.value.split())):
        raise TranslateError(f"{rel2}: events.sequence is not INTEGER PRIMARY KEY AUTOINCREMENT")
    out.append("(* events/store/sqlite: sequence INTEGER PRIMARY KEY AUTOINCREMENT; get_events_for_workflow =\n"
               "   WHERE workflow_id = ? AND sequence > ? ORDER BY sequence ASC -- shape checked *)")
    out.append("Definition store_query_shape_checked : bool := true.")


# ---------------------------------------------------------------------------------------------
# events/recorder/*_events.py
# ---------------------------------------------------------------------------------------------

def _recorders(out: list[str], kinds: list[str]) -> dict[str, tuple]:
    info: dict[str, tuple] = {}
    for rel, cname, factory, et in (("events/recorder/workflow_events.py", "WorkflowEventsMixin", "create_workflow_event", "WORKFLOW"),
                                    ("events/recorder/stage_events.py", "StageEventsMixin", "create_stage_event", "STAGE"),
                                    ("events/recorder/task_events.py", "TaskEventsMixin", "create_task_event", "TASK")):
        mod = T._parse(rel)
        cls = T._find_class(mod, cname, rel)
        for fn in cls.body:
            if not (isinstance(fn, ast.FunctionDef) and fn.name.startswith("record_")):
                continue
            calls = [n for n in ast.walk(fn) if isinstance(n, ast.Call) and isinstance(n.func, ast.Name) and n.func.id == factory]
            if len(calls) != 1:
                T._fail(rel, fn, f"{fn.name}: expected exactly one {factory}(...) call")
            kw = {k.arg: k.value for k in calls[0].keywords}
            etv = kw.get("event_type")
            if not (isinstance(etv, ast.Attribute) and ast.unparse(etv.value) == "EventType" and etv.attr in kinds):
                T._fail(rel, fn, f"{fn.name}: event_type is not EventType.<MEMBER>")
            data = kw.get("data")
            if not isinstance(data, ast.Dict):
                T._fail(rel, fn, f"{fn.name}: data is not a dict literal")
            has_status = False
            keys = []
            for k, v in zip(data.keys, data.values):
                if not (isinstance(k, ast.Constant) and isinstance(k.value, str)):
                    T._fail(rel, fn, f"{fn.name}: non-literal data key")
                keys.append(k.value)
                if k.value == "status":
                    txt = ast.unparse(v)
                    if not txt.endswith(".status.name"):
                        T._fail(rel, v, f"{fn.name}: data['status'] is {txt!r}, expected <entity>.status.name")
                    has_status = True
            rets = [s for s in fn.body if isinstance(s, ast.Return)]
            if not (len(rets) == 1 and ast.unparse(rets[0].value) == "self._record(event, connection)"):
                T._fail(rel, fn, f"{fn.name}: does not end in `return self._record(event, connection)`")
            info[fn.name] = (etv.attr, et, has_status, keys)
    names = list(info)
    out.append("(* events/recorder: the record_* methods *)")
    out.append("Inductive rmethod : Type :=\n" + "\n".join(f"  | R_{n[7:]}" for n in names) + ".")
    out.append("Definition all_rmethods : list rmethod := [" + "; ".join(f"R_{n[7:]}" for n in names) + "].")
    out.append("Definition recorder_kind (m : rmethod) : ekind :=\n  match m with\n" +
               "\n".join(f"  | R_{n[7:]} => E_{info[n][0]}" for n in names) + "\n  end.")
    out.append("Definition recorder_etype (m : rmethod) : etype :=\n  match m with\n" +
               "\n".join(f"  | R_{n[7:]} => ET_{info[n][1]}" for n in names) + "\n  end.")
    out.append('(* whether the payload carries "status": <entity>.status.name *)')
    out.append("Definition recorder_has_status (m : rmethod) : bool :=\n  match m with\n" +
               "\n".join(f"  | R_{n[7:]} => {_b(info[n][2])}" for n in names) + "\n  end.")
    for n in names:
        out.append(f"(*   {n}: data keys {info[n][3]} *)")
    return info


# ---------------------------------------------------------------------------------------------
# handlers: record-call positions and the status -> record method decisions
# ---------------------------------------------------------------------------------------------

def _is_txn_with(node: ast.AST) -> bool:
    if not isinstance(node, ast.With):
        return False
    for it in node.items:
        c = it.context_expr
        if isinstance(c, ast.Call) and isinstance(c.func, ast.Attribute) and c.func.attr == "transaction" \
                and ast.unparse(c.func.value) in ("self.repository", "self.store"):
            return True
    return False


def _parents(tree: ast.AST) -> dict:
    par = {}
    for n in ast.walk(tree):
        for c in ast.iter_child_nodes(n):
            par[c] = n
    return par


def _record_calls(fn: ast.AST) -> list[ast.Call]:
    """self.event_recorder.record_X(...) calls lexically inside fn, not inside a nested def"""
    out = []

    def walk(n, top):
        for c in ast.iter_child_nodes(n):
            if isinstance(c, (ast.FunctionDef, ast.Lambda)) and not top:
                pass
            if isinstance(c, ast.FunctionDef):
                continue
            if isinstance(c, ast.Call) and isinstance(c.func, ast.Attribute) and c.func.attr.startswith("record_") \
                    and ast.unparse(c.func.value) == "self.event_recorder":
                out.append(c)
            walk(c, False)
    walk(fn, True)
    return out


def _position(rel: str, fn: ast.FunctionDef, call: ast.AST, par: dict) -> str:
    """position of `call` relative to the with-transaction blocks of its enclosing function `fn`"""
    n = call
    while n is not fn:
        n = par[n]
        if _is_txn_with(n):
            return "InTxn"
    withs = []

    def walk(m):
        for c in ast.iter_child_nodes(m):
            if isinstance(c, ast.FunctionDef):
                continue
            if _is_txn_with(c):
                withs.append(c)
            walk(c)
    walk(fn)
    if not withs:
        return "NoTxn"
    before = [w for w in withs if w.end_lineno < call.lineno]
    after = [w for w in withs if w.lineno > call.lineno]
    if len(before) + len(after) != len(withs):
        T._fail(rel, call, "cannot order a record call against a transaction block")
    if before and not after:
        return "AfterTxn"
    if after and not before:
        return "BeforeTxn"
    return "BetweenTxn"


def _all_funcs(tree: ast.AST):
    return [n for n in ast.walk(tree) if isinstance(n, ast.FunctionDef)]


def _enclosing_func(node: ast.AST, par: dict) -> ast.FunctionDef:
    n = node
    while True:
        n = par.get(n)
        if n is None:
            return None
        if isinstance(n, ast.FunctionDef):
            return n


def _sites(rel: str, mod: ast.Module):
    """-> list of (record method name, position, lineno, helper name or None).  A record call made inside a helper
    (a nested closure or a method whose body contains the call but no transaction block) is located at the helper's
    call sites."""
    par = _parents(mod)
    res = []
    for fn in _all_funcs(mod):
        calls = _record_calls(fn)
        if not calls:
            continue
        # is fn a pure recording helper (no with-transaction inside it)?
        has_txn = any(_is_txn_with(n) for n in ast.walk(fn))
        if not has_txn:
            # helper: find its call sites by name
            sites = []
            for n in ast.walk(mod):
                if isinstance(n, ast.Call):
                    f = n.func
                    if (isinstance(f, ast.Name) and f.id == fn.name) or \
                            (isinstance(f, ast.Attribute) and f.attr == fn.name and ast.unparse(f.value) == "self"):
                        sites.append(n)
            if not sites:
                T._fail(rel, fn, f"recording helper {fn.name} is never called")
            for s in sites:
                enc = _enclosing_func(s, par)
                if enc is None:
                    T._fail(rel, s, "helper called at module level")
                pos = _position(rel, enc, s, par)
                for c in calls:
                    res.append((c.func.attr, pos, s.lineno, fn.name))
        else:
            for c in calls:
                res.append((c.func.attr, _position(rel, fn, c, par), c.lineno, None))
    return res


def _decision(rel: str, fn: ast.AST, subject_txts: tuple[str, ...]) -> list[tuple[str, str | None]]:
    """the if/elif/else chain that picks the record method from the status:
       -> [(test, method|None)], test in {"is_failure", "eq:<STATUS>", "else"}"""
    chains = []
    for s in ast.walk(fn):
        if isinstance(s, ast.If) and any(isinstance(n, ast.Call) and isinstance(n.func, ast.Attribute) and n.func.attr.startswith("record_")
                                         for b in s.body for n in ast.walk(b)):
            t = ast.unparse(s.test)
            if any(t.startswith(x) for x in subject_txts):
                chains.append(s)
    # keep outermost chain heads only
    heads = [c for c in chains if not any(c is not d and c in list(ast.walk(d))[1:] for d in chains)]
    if len(heads) != 1:
        T._fail(rel, fn, f"expected exactly one status -> record_* decision chain, found {len(heads)}")
    out = []
    node = heads[0]

    def method_of(body):
        ms = [n.func.attr for b in body for n in ast.walk(b)
              if isinstance(n, ast.Call) and isinstance(n.func, ast.Attribute) and n.func.attr.startswith("record_")
              and ast.unparse(n.func.value) == "self.event_recorder"]
        if len(ms) > 1:
            T._fail(rel, body[0], "several record calls in one branch")
        if not ms:
            rest = [b for b in body if not isinstance(b, ast.Pass)
                    and not (isinstance(b, ast.Expr) and isinstance(b.value, ast.Constant))]
            if rest:
                T._fail(rel, body[0], "branch without a record call is not a bare `pass`")
            return None
        return ms[0]
    while True:
        t = node.test
        txt = ast.unparse(t)
        if isinstance(t, ast.Attribute) and t.attr == "is_failure" and ast.unparse(t.value) in subject_txts:
            test = "is_failure"
        elif (isinstance(t, ast.Compare) and len(t.ops) == 1 and isinstance(t.ops[0], ast.Eq) and ast.unparse(t.left) in subject_txts
              and isinstance(t.comparators[0], ast.Attribute) and ast.unparse(t.comparators[0].value) == "WorkflowStatus"
              and t.comparators[0].attr in STATUS_NAMES):
            test = "eq:" + t.comparators[0].attr
        else:
            T._fail(rel, node, f"unrecognised test in the record decision: {txt!r}")
        out.append((test, method_of(node.body)))
        if not node.orelse:
            out.append(("else", None))
            break
        if len(node.orelse) == 1 and isinstance(node.orelse[0], ast.If):
            node = node.orelse[0]
            continue
        out.append(("else", method_of(node.orelse)))
        break
    return out


def _coq_decision(name: str, dec: list[tuple[str, str | None]]) -> str:
    def m(x):
        return "None" if x is None else f"Some R_{x[7:]}"
    s = ""
    for test, meth in dec:
        if test == "is_failure":
            s += f"if is_failure s then {m(meth)} else "
        elif test.startswith("eq:"):
            s += f"if status_eqb s {test[3:]} then {m(meth)} else "
        else:
            s += m(meth)
    return f"Definition {name} (s : status) : option rmethod :=\n  {s}."


def _handlers(out: list[str], rec: dict[str, tuple]) -> None:
    def check_methods(rel, sites):
        for meth, _, ln, _ in sites:
            if meth not in rec:
                raise TranslateError(f"{rel}:{ln}: {meth} is not a recorder method")

    def single_pos(rel, sites, what):
        ps = sorted({p for _, p, _, _ in sites})
        if len(ps) != 1:
            raise TranslateError(f"{rel}: the {what} record calls sit at different positions {ps}: "
                                 + ", ".join(f"line {ln}={p}" for _, p, ln, _ in sites))
        return ps[0]

    out.append("(* handlers: where each record_* call sits relative to `with self.repository.transaction(...)` *)")
    out.append("Inductive rpos : Type := InTxn | AfterTxn | BeforeTxn | BetweenTxn | NoTxn.")
    out.append("Definition rpos_eqb (a b : rpos) : bool :=\n  match a, b with\n  | InTxn, InTxn | AfterTxn, AfterTxn | BeforeTxn, BeforeTxn"
               " | BetweenTxn, BetweenTxn | NoTxn, NoTxn => true\n  | _, _ => false\n  end.")

    # ---- complete_task
    rel = "handlers/complete_task.py"
    mod = T._parse(rel)
    sites = _sites(rel, mod)
    check_methods(rel, sites)
    if {m for m, _, _, _ in sites} != {"record_task_failed", "record_task_completed"}:
        raise TranslateError(f"{rel}: record methods used are {sorted({m for m, _, _, _ in sites})}")
    if any(h != "record_completion_event" for _, _, _, h in sites):
        raise TranslateError(f"{rel}: task completion events are not recorded through the record_completion_event closure")
    out.append(f"(* {rel}: record_completion_event() call sites: " +
               ", ".join(sorted({f'line {ln}: {p}' for _, p, ln, _ in sites})) + " *)")
    out.append(f"Definition complete_task_event_in_txn : bool := {_b(all(p == 'InTxn' for _, p, _, _ in sites))}.")
    out.append(f"Definition complete_task_event_sites : list rpos := [" + "; ".join(
        p for p, _ in sorted({(p, ln) for _, p, ln, _ in sites}, key=lambda x: x[1])) + "].")
    helper = [f for f in _all_funcs(mod) if f.name == "record_completion_event"][0]
    out.append(_coq_decision("complete_task_emit", _decision(rel, helper, ("message.status",))))
    # the status the payload carries is task.status, set from message.status just before
    src = ast.unparse(mod)
    if "self.set_task_status(task, message.status)" not in src:
        raise TranslateError(f"{rel}: set_task_status(task, message.status) not found")

    # ---- complete_stage
    rel = "handlers/complete_stage/handler.py"
    mod = T._parse(rel)
    sites = _sites(rel, mod)
    check_methods(rel, sites)
    if {m for m, _, _, _ in sites} != {"record_stage_failed", "record_stage_skipped", "record_stage_completed"}:
        raise TranslateError(f"{rel}: record methods used are {sorted({m for m, _, _, _ in sites})}")
    if any(h != "_record_completion_event" for _, _, _, h in sites):
        raise TranslateError(f"{rel}: stage completion events are not recorded through _record_completion_event")
    out.append(f"(* {rel}: _record_completion_event() call sites: " +
               ", ".join(sorted({f'line {ln}: {p}' for _, p, ln, _ in sites})) + " *)")
    out.append(f"Definition complete_stage_event_in_txn : bool := {_b(all(p == 'InTxn' for _, p, _, _ in sites))}.")
    out.append(f"Definition complete_stage_event_sites : list rpos := [" + "; ".join(
        p for p, _ in sorted({(p, ln) for _, p, ln, _ in sites}, key=lambda x: x[1])) + "].")
    helper = [f for f in _all_funcs(mod) if f.name == "_record_completion_event"][0]
    out.append(_coq_decision("complete_stage_emit", _decision(rel, helper, ("status",))))
    # every `with transaction` block that stores the stage after set_stage_status(stage, status) must record:
    # count the store_stage-with-blocks following the first `self.set_stage_status(stage, status)` in on_stage
    n_with_store = 0
    n_with_store_rec = 0
    n_reg = n_reg_rec = 0
    first_set = None
    par = _parents(mod)

    def in_except(n):
        while n in par:
            n = par[n]
            if isinstance(n, ast.ExceptHandler):
                return True
        return False
    for n in ast.walk(mod):
        if isinstance(n, ast.Call) and ast.unparse(n) == "self.set_stage_status(stage, status)":
            first_set = n.lineno if first_set is None else min(first_set, n.lineno)
    if first_set is None:
        raise TranslateError(f"{rel}: self.set_stage_status(stage, status) not found")
    for n in ast.walk(mod):
        if _is_txn_with(n) and n.lineno > first_set:
            txt = ast.unparse(n)
            if "txn.store_stage(stage)" in txt:
                rec_here = "self._record_completion_event(stage, " in txt
                n_with_store += 1
                n_with_store_rec += rec_here
                if not in_except(n):
                    n_reg += 1
                    n_reg_rec += rec_here
    out.append(f"(* {rel}: {n_with_store} transaction blocks store the completed stage ({n_reg} outside the `except Exception` "
               f"handler), {n_with_store_rec} ({n_reg_rec}) of them record the event *)")
    out.append(f"Definition complete_stage_regular_store_records : bool := {_b(n_reg > 0 and n_reg == n_reg_rec)}.")
    out.append(f"Definition complete_stage_every_store_records : bool := {_b(n_with_store > 0 and n_with_store == n_with_store_rec)}.")

    # ---- complete_task: likewise every block storing the completed task records
    rel = "handlers/complete_task.py"
    mod = T._parse(rel)
    first_set = None
    for n in ast.walk(mod):
        if isinstance(n, ast.Call) and ast.unparse(n) == "self.set_task_status(task, message.status)":
            first_set = n.lineno
    n_with_store = n_with_store_rec = 0
    for n in ast.walk(mod):
        if _is_txn_with(n) and n.lineno > first_set:
            txt = ast.unparse(n)
            if "txn.store_stage(stage)" in txt:
                n_with_store += 1
                if "record_completion_event()" in txt:
                    n_with_store_rec += 1
    out.append(f"(* {rel}: {n_with_store} transaction blocks store the completed task, {n_with_store_rec} of them record the event *)")
    out.append(f"Definition complete_task_every_store_records : bool := {_b(n_with_store > 0 and n_with_store == n_with_store_rec)}.")

    # ---- complete_workflow
    rel = "handlers/complete_workflow.py"
    mod = T._parse(rel)
    sites = _sites(rel, mod)
    check_methods(rel, sites)
    if {m for m, _, _, _ in sites} != {"record_workflow_completed", "record_workflow_canceled", "record_workflow_failed"}:
        raise TranslateError(f"{rel}: record methods used are {sorted({m for m, _, _, _ in sites})}")
    out.append(f"Definition complete_workflow_event_pos : rpos := {single_pos(rel, sites, 'CompleteWorkflow')}.")
    fn = [f for f in _all_funcs(mod) if f.name == "on_execution"][0]
    out.append(_coq_decision("complete_workflow_emit", _decision(rel, fn, ("status",))))

    # ---- single-event handlers
    for rel, name, want in (("handlers/start_stage/handler.py", "start_stage", ["record_stage_started"]),
                            ("handlers/start_task.py", "start_task", ["record_task_started"]),
                            ("handlers/skip_stage.py", "skip_stage", ["record_stage_skipped"]),
                            ("handlers/cancel_stage.py", "cancel_stage", ["record_stage_canceled"]),
                            ("handlers/start_workflow.py", "start_workflow", ["record_workflow_created", "record_workflow_started"])):
        mod = T._parse(rel)
        sites = _sites(rel, mod)
        check_methods(rel, sites)
        got = [m for m, _, _, _ in sorted(sites, key=lambda x: x[2])]
        if got != want:
            raise TranslateError(f"{rel}: record calls are {got}, expected {want}")
        out.append(f"Definition {name}_event_pos : rpos := {single_pos(rel, sites, name)}.")
        out.append(f"Definition {name}_events : list rmethod := [" + "; ".join(f"R_{m[7:]}" for m in got) + "].")

    # ---- no other handler records lifecycle events
    import os
    known = {"complete_task.py", "complete_stage/handler.py", "complete_workflow.py", "start_stage/handler.py", "start_task.py",
             "skip_stage.py", "cancel_stage.py", "start_workflow.py", "start_waiting_workflows.py", "base.py"}
    root = T.lib.SRC / "handlers"
    others = []
    for dp, _, fns in os.walk(root):
        for f in fns:
            if f.endswith(".py"):
                p = os.path.join(dp, f)
                r = os.path.relpath(p, root)
                if r in known:
                    continue
                txt = open(p).read()
                if "event_recorder.record_" in txt:
                    others.append(r)
    if others:
        raise TranslateError(f"handlers: unexpected record_* calls in {sorted(others)}")
    out.append("(* no handler other than the eight above (and start_waiting_workflows) calls event_recorder.record_* *)")


# ---------------------------------------------------------------------------------------------
# events/txn_scope.py, events/recorder/base.py, persistence/sqlite/store/store.py : shape checks as booleans
# ---------------------------------------------------------------------------------------------

def _with_helpers(mod: ast.Module, fn: ast.FunctionDef, depth: int = 2) -> str:
    """source of `fn` followed by the source of the same-module functions it calls (transitively, `depth` levels): a
    shape that was moved into a private helper by an extract-function refactoring is still found.  The shape checks
    below are containment tests; what the functions DO is decided by the correspondence (EventsM.trun against the real
    store.transaction / recorder / bus on every run), not by these flags alone."""
    funcs = {n.name: n for n in mod.body if isinstance(n, ast.FunctionDef)}
    seen, order, frontier = {fn.name}, [fn], [fn]
    for _ in range(depth):
        nxt = []
        for f in frontier:
            for c in ast.walk(f):
                if isinstance(c, ast.Call) and isinstance(c.func, ast.Name) and c.func.id in funcs and c.func.id not in seen:
                    seen.add(c.func.id)
                    order.append(funcs[c.func.id])
                    nxt.append(funcs[c.func.id])
        frontier = nxt
    return "\n".join(ast.unparse(f) for f in order)


def _scope(out: list[str]) -> None:
    rel = "events/txn_scope.py"
    mod = T._parse(rel)
    commit = _with_helpers(mod, T._find_func(mod.body, "commit_store_transaction", rel))
    abort = _with_helpers(mod, T._find_func(mod.body, "abort_store_transaction", rel))
    begin = _with_helpers(mod, T._find_func(mod.body, "begin_store_transaction", rel))
    commit_publishes = "for event in scope.pending:" in commit and "bus.publish(event)" in commit
    commit_outermost_only = "scope.depth -= 1\n    if scope.depth > 0:\n        return" in commit
    abort_publishes = "publish" in abort.replace("deferred event publication", "")
    abort_unbinds = "_local.scope = None" in abort and "scope.depth -= 1\n    if scope.depth > 0:\n        return" in abort
    begin_reentrant = "scope.depth += 1" in begin and "_local.scope = TxnScope(connection, url)" in begin
    out.append("(* events/txn_scope.py *)")
    out.append(f"Definition scope_commit_publishes_pending : bool := {_b(commit_publishes)}.")
    out.append(f"Definition scope_commit_outermost_only : bool := {_b(commit_outermost_only)}.")
    out.append(f"Definition scope_abort_drops_pending : bool := {_b(abort_unbinds and not abort_publishes)}.")
    out.append(f"Definition scope_begin_reentrant : bool := {_b(begin_reentrant)}.")

    rel = "events/recorder/base.py"
    mod = T._parse(rel)
    cls = T._find_class(mod, "EventRecorderBase", rel)
    rec = T._find_func(cls.body, "_record", rel)
    src = ast.unparse(rec)
    joins = ("scope = current_scope() if connection is None else None" in src
             and "if scope is not None and connection is None and self._store_matches_scope(scope):\n        connection = scope.connection" in src
             and "recorded = self._event_store.append(event, connection=connection)" in src)
    # publication: deferred iff a scope is active
    pub = None
    for n in ast.walk(rec):
        if isinstance(n, ast.If) and ast.unparse(n.test) == "self._publish_to_bus":
            pub = n
    deferred = False
    if pub is not None and len(pub.body) == 1 and isinstance(pub.body[0], ast.If) and ast.unparse(pub.body[0].test) == "scope is not None":
        inner = pub.body[0]
        then_txt = ast.unparse(ast.Module(body=inner.body, type_ignores=[]))
        else_txt = ast.unparse(ast.Module(body=inner.orelse, type_ignores=[]))
        deferred = ("scope.pending.append(recorded)" in then_txt and "publish" not in then_txt
                    and "get_event_bus().publish(recorded)" in else_txt)
    m = T._find_func(cls.body, "_store_matches_scope", rel)
    msrc = ast.unparse(m)
    same_db = ("if scope.url is None:\n        return False" in msrc and "store_url == scope.url" in msrc)
    out.append("(* events/recorder/base.py:_record *)")
    out.append(f"Definition record_joins_scope_connection : bool := {_b(joins)}.")
    out.append(f"Definition record_defers_publication_in_scope : bool := {_b(deferred)}.")
    out.append(f"Definition record_join_requires_same_url : bool := {_b(same_db)}.")

    rel = "persistence/sqlite/store/store.py"
    mod = T._parse(rel)
    cls = T._find_class(mod, "SqliteWorkflowStore", rel)
    tr = T._find_func(cls.body, "transaction", rel)
    body = [s for s in tr.body if not (isinstance(s, ast.Expr) and isinstance(s.value, ast.Constant))]
    tail = [" ".join(ast.unparse(s).split()) for s in body[-3:]]
    ok = (len(body) >= 3 and tail[0] == "begin_store_transaction(conn, self.connection_string)"
          and isinstance(body[-2], ast.Try) and tail[2] == "commit_store_transaction()")
    if ok:
        t = body[-2]
        tb = [" ".join(ast.unparse(s).split()) for s in t.body]
        ok = tb == ["yield txn", "conn.commit()"] and len(t.handlers) == 1 and not t.orelse and not t.finalbody
        if ok:
            hb = [" ".join(ast.unparse(s).split()) for s in t.handlers[0].body]
            ok = (ast.unparse(t.handlers[0].type) == "Exception" and hb[0] == "conn.rollback()"
                  and "abort_store_transaction()" in hb and hb[-1] == "raise"
                  and hb.index("conn.rollback()") < hb.index("abort_store_transaction()"))
    out.append("(* persistence/sqlite/store/store.py:transaction -- begin scope; yield; conn.commit(); on Exception: rollback, abort scope, raise;\n"
               "   commit_store_transaction() only after a successful COMMIT *)")
    out.append(f"Definition store_transaction_shape_ok : bool := {_b(ok)}.")


def gen_events() -> str:
    out: list[str] = []
    kinds, _ = _enums(out)
    _replay(out, kinds)
    _store(out)
    rec = _recorders(out, kinds)
    _handlers(out, rec)
    _scope(out)
    hdr = T.HEADER.format(src="events/base.py, events/replay.py, events/recorder/*.py, events/txn_scope.py, "
                              "events/store/sqlite/*.py, persistence/sqlite/store/store.py, handlers/*.py")
    return hdr + "From Stab.gen Require Import Gen_Status.\nLocal Open Scope string_scope.\n\n" + "\n\n".join(out) + "\n"


EMITTERS = {"Gen_Events.v": gen_events}
