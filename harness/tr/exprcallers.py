"""Translator emitter for C20: the try/except shape of the two callers of evaluate_expression.

  handlers/complete_stage/split_logic.py : CompleteStagesSplitMixin._apply_split_logic
  handlers/start_stage/conditions.py     : StartStageConditionsMixin._should_skip

From the AST it takes (fail-closed on any other shape):
  * which exception classes the `try` around evaluate_expression catches
    (ExpressionError? everything?),
  * what the caller decides from a value (truthy / not truthy) and what it decides in the handler.
Emits coq/gen/Gen_ExprCallers.v (definitions only); coq/model/ExprCallers.v plugs them into the
generic `caller` shape of model/Expr.v and props/C20.v proves C20_callers against them.
"""
from __future__ import annotations

import ast

from harness import translate
from harness.translate import TranslateError, _fail, _find_class, _find_func, _parse, HEADER


def _is_logger_call(st: ast.stmt) -> bool:
    return (isinstance(st, ast.Expr) and isinstance(st.value, ast.Call)
            and isinstance(st.value.func, ast.Attribute) and isinstance(st.value.func.value, ast.Name)
            and st.value.func.value.id in ("logger", "logging"))


def _find_try(fn: ast.FunctionDef, rel: str) -> ast.Try:
    found = []
    for n in ast.walk(fn):
        if isinstance(n, ast.Try):
            calls = [c for st in n.body for c in ast.walk(st)
                     if isinstance(c, ast.Call) and isinstance(c.func, ast.Name) and c.func.id == "evaluate_expression"]
            if calls:
                found.append(n)
    # every call of evaluate_expression in the function must be inside that try body
    all_calls = [c for c in ast.walk(fn)
                 if isinstance(c, ast.Call) and isinstance(c.func, ast.Name) and c.func.id == "evaluate_expression"]
    if len(found) != 1 or len(all_calls) != 1:
        _fail(rel, fn, f"{fn.name}: expected exactly one evaluate_expression call, inside exactly one try "
                       f"(found {len(all_calls)} calls, {len(found)} enclosing try statements)")
    t = found[0]
    if t.orelse or t.finalbody:
        _fail(rel, t, f"{fn.name}: try has else/finally")
    if len(t.handlers) != 1:
        _fail(rel, t, f"{fn.name}: expected exactly one except clause, found {len(t.handlers)}")
    return t


def _catches(h: ast.ExceptHandler, rel: str) -> tuple[bool, bool]:
    """(catches ExpressionError, catches everything)"""
    if h.type is None:
        return True, True
    names = []
    elts = h.type.elts if isinstance(h.type, ast.Tuple) else [h.type]
    for e in elts:
        if isinstance(e, ast.Name):
            names.append(e.id)
        elif isinstance(e, ast.Attribute):
            names.append(e.attr)
        else:
            _fail(rel, e, "unrecognised exception class expression in except clause")
    catch_all = any(n in ("Exception", "BaseException") for n in names)
    return ("ExpressionError" in names) or catch_all, catch_all


def _assign_call(st: ast.stmt, rel: str) -> str:
    if not (isinstance(st, ast.Assign) and len(st.targets) == 1 and isinstance(st.targets[0], ast.Name)
            and isinstance(st.value, ast.Call) and isinstance(st.value.func, ast.Name)
            and st.value.func.id == "evaluate_expression" and len(st.value.args) == 2 and not st.value.keywords):
        _fail(rel, st, "expected `<name> = evaluate_expression(<expr>, <context>)`")
    return st.targets[0].id


def _append_target(st: ast.stmt, rel: str) -> str:
    """`activated.append(downstream)` / `skipped.append(downstream)` -> 'Activate' / 'SkipBranch'"""
    if not (isinstance(st, ast.Expr) and isinstance(st.value, ast.Call) and isinstance(st.value.func, ast.Attribute)
            and st.value.func.attr == "append" and isinstance(st.value.func.value, ast.Name)
            and len(st.value.args) == 1 and isinstance(st.value.args[0], ast.Name) and st.value.args[0].id == "downstream"):
        _fail(rel, st, "expected activated.append(downstream) or skipped.append(downstream)")
    tgt = st.value.func.value.id
    if tgt == "activated":
        return "Activate"
    if tgt == "skipped":
        return "SkipBranch"
    _fail(rel, st, f"append to unexpected list {tgt}")


def _truth_test(test: ast.expr, var: str, rel: str) -> bool:
    """True when the test is `var` / `bool(var)`, False when it is `not var` / `not bool(var)`."""
    neg = False
    if isinstance(test, ast.UnaryOp) and isinstance(test.op, ast.Not):
        neg = True
        test = test.operand
    if isinstance(test, ast.Call) and isinstance(test.func, ast.Name) and test.func.id == "bool" and len(test.args) == 1:
        test = test.args[0]
    if not (isinstance(test, ast.Name) and test.id == var):
        _fail(rel, test, f"expected a truth test of `{var}`")
    return not neg


def gen_expr_callers() -> str:
    out = [HEADER.format(src="handlers/complete_stage/split_logic.py, handlers/start_stage/conditions.py")]

    # ---- _apply_split_logic ------------------------------------------------------------------
    rel = "handlers/complete_stage/split_logic.py"
    cls = _find_class(_parse(rel), "CompleteStagesSplitMixin", rel)
    fn = _find_func(cls.body, "_apply_split_logic", rel)
    t = _find_try(fn, rel)
    if len(t.body) != 2:
        _fail(rel, t, "_apply_split_logic: try body is not `result = evaluate_expression(..)` + one `if`")
    var = _assign_call(t.body[0], rel)
    iff = t.body[1]
    if not (isinstance(iff, ast.If) and len(iff.body) == 1 and len(iff.orelse) == 1):
        _fail(rel, iff, "_apply_split_logic: expected `if result: X.append(downstream) else: Y.append(downstream)`")
    pos = _truth_test(iff.test, var, rel)
    on_true, on_false = _append_target(iff.body[0], rel), _append_target(iff.orelse[0], rel)
    if not pos:
        on_true, on_false = on_false, on_true
    h = t.handlers[0]
    ce, ca = _catches(h, rel)
    hb = [st for st in h.body if not _is_logger_call(st)]
    if len(hb) != 1:
        _fail(rel, h, "_apply_split_logic: except body is not (logging +) one append")
    on_exc = _append_target(hb[0], rel)
    out.append("Inductive split_decision : Type := Activate | SkipBranch.\n")
    out.append(f"Definition split_catches_expr : bool := {'true' if ce else 'false'}.")
    out.append(f"Definition split_catches_all : bool := {'true' if ca else 'false'}.")
    out.append(f"Definition split_on_value (truthy : bool) : split_decision := if truthy then {on_true} else {on_false}.")
    out.append(f"Definition split_on_except : split_decision := {on_exc}.\n")

    # ---- _should_skip ------------------------------------------------------------------------
    rel = "handlers/start_stage/conditions.py"
    cls = _find_class(_parse(rel), "StartStageConditionsMixin", rel)
    fn = _find_func(cls.body, "_should_skip", rel)
    t = _find_try(fn, rel)
    if len(t.body) < 2:
        _fail(rel, t, "_should_skip: try body too short")
    var = _assign_call(t.body[-2], rel)
    ret = t.body[-1]
    if not (isinstance(ret, ast.Return) and ret.value is not None):
        _fail(rel, ret, "_should_skip: try body does not end with `return <truth test of result>`")
    pos = _truth_test(ret.value, var, rel)
    # the statements before the call only build the evaluation context: no return/raise among them
    for st in t.body[:-2]:
        for n in ast.walk(st):
            if isinstance(n, (ast.Return, ast.Raise)):
                _fail(rel, n, "_should_skip: return/raise before the evaluate_expression call inside the try")
    h = t.handlers[0]
    ce, ca = _catches(h, rel)
    hb = [st for st in h.body if not _is_logger_call(st)]
    if not (len(hb) == 1 and isinstance(hb[0], ast.Return) and isinstance(hb[0].value, ast.Constant)
            and isinstance(hb[0].value.value, bool)):
        _fail(rel, h, "_should_skip: except body is not (logging +) `return True/False`")
    out.append(f"Definition skip_catches_expr : bool := {'true' if ce else 'false'}.")
    out.append(f"Definition skip_catches_all : bool := {'true' if ca else 'false'}.")
    out.append("(* _should_skip returns True = the stage is skipped *)")
    out.append(f"Definition skip_on_value (truthy : bool) : bool := {'truthy' if pos else 'negb truthy'}.")
    out.append(f"Definition skip_on_except : bool := {'true' if hb[0].value.value else 'false'}.")
    return "\n".join(out) + "\n"


EMITTERS = {"Gen_ExprCallers.v": gen_expr_callers}
