"""Emitter Gen_Guards.v: the status / arithmetic guards of the handlers, taken from the AST of the
current source and emitted as Coq boolean functions under stable names.  Fail-closed."""
from __future__ import annotations

import ast

from harness.translate import TranslateError, _parse, _find_class, _find_func, _fail, HEADER

STATUS_PROPS = {"is_complete": "is_complete", "is_halt": "is_halt", "is_failure": "is_failure",
                "is_successful": "is_successful"}
STATUS_SETS = {"CONTINUABLE_STATUSES": "in_continuable", "HALT_STATUSES": "in_halt",
               "ACTIVE_STATUSES": "in_active", "COMPLETED_STATUSES": "in_completed"}


class Tr:
    """Python boolean/arith expression -> Coq term. env: unparsed python sub-expression -> (coq var, kind)
    kind in {'status', 'Z', 'bool'}"""

    def __init__(self, rel, env, local_defs=None):
        self.rel, self.env = rel, env
        self.local_defs = local_defs or {}     # name -> ast expr (single assignment in the enclosing function)

    def kind(self, n):
        u = ast.unparse(n)
        if u in self.env:
            return self.env[u][1]
        if isinstance(n, ast.Attribute) and isinstance(n.value, ast.Name) and n.value.id == "WorkflowStatus":
            return "status"
        if isinstance(n, ast.Constant) and isinstance(n.value, bool):
            return "bool"
        if isinstance(n, ast.Constant) and isinstance(n.value, int):
            return "Z"
        if isinstance(n, ast.BinOp):
            return "Z"
        return "bool"

    def term(self, n):
        u = ast.unparse(n)
        if u in self.env:
            return self.env[u][0]
        if isinstance(n, ast.Name) and n.id in self.local_defs:
            return self.term(self.local_defs[n.id])
        if isinstance(n, ast.Attribute) and isinstance(n.value, ast.Name) and n.value.id == "WorkflowStatus":
            return n.attr
        if isinstance(n, ast.Attribute) and n.attr in STATUS_PROPS and self.kind(n.value) == "status":
            return f"({STATUS_PROPS[n.attr]} {self.term(n.value)})"
        if isinstance(n, ast.Constant) and isinstance(n.value, bool):
            return "true" if n.value else "false"
        if isinstance(n, ast.Constant) and isinstance(n.value, int):
            return f"({n.value})%Z"
        if isinstance(n, ast.BinOp) and isinstance(n.op, (ast.Add, ast.Sub)):
            op = "+" if isinstance(n.op, ast.Add) else "-"
            return f"({self.term(n.left)} {op} {self.term(n.right)})%Z"
        if isinstance(n, ast.UnaryOp) and isinstance(n.op, ast.Not):
            return f"(negb {self.term(n.operand)})"
        if isinstance(n, ast.BoolOp):
            op = "&&" if isinstance(n.op, ast.And) else "||"
            return "(" + f" {op} ".join(self.term(v) for v in n.values) + ")"
        if isinstance(n, ast.Compare) and len(n.ops) == 1:
            l, r, op = n.left, n.comparators[0], n.ops[0]
            if isinstance(op, (ast.In, ast.NotIn)):
                if isinstance(r, ast.Name) and r.id in STATUS_SETS:
                    t = f"({STATUS_SETS[r.id]} {self.term(l)})"
                elif isinstance(r, (ast.Set, ast.Tuple, ast.List)):
                    t = "(" + " || ".join(f"status_eqb {self.term(l)} {self.term(e)}" for e in r.elts) + ")"
                    if not r.elts:
                        t = "false"
                else:
                    _fail(self.rel, n, f"membership in unsupported container: {ast.unparse(r)}")
                return t if isinstance(op, ast.In) else f"(negb {t})"
            k = self.kind(l)
            if k == "status" or self.kind(r) == "status":
                if isinstance(op, ast.Eq):
                    return f"(status_eqb {self.term(l)} {self.term(r)})"
                if isinstance(op, ast.NotEq):
                    return f"(negb (status_eqb {self.term(l)} {self.term(r)}))"
                _fail(self.rel, n, "ordering comparison on statuses")
            ops = {ast.Lt: "<?", ast.LtE: "<=?", ast.Eq: "=?"}
            if type(op) in ops:
                return f"({self.term(l)} {ops[type(op)]} {self.term(r)})%Z"
            if isinstance(op, ast.Gt):
                return f"({self.term(r)} <? {self.term(l)})%Z"
            if isinstance(op, ast.GtE):
                return f"({self.term(r)} <=? {self.term(l)})%Z"
            if isinstance(op, ast.NotEq):
                return f"(negb ({self.term(l)} =? {self.term(r)})%Z)"
        _fail(self.rel, n, f"untranslatable guard expression: {u}")


def _find_if(rel, fn_path, contains, nth=0):
    """first `if` (source order) inside the function whose test mentions `contains`"""
    mod = _parse(rel)
    node = mod
    for name in fn_path:
        body = node.body
        found = None
        for n in ast.walk(node):
            if isinstance(n, (ast.FunctionDef, ast.ClassDef)) and n.name == name:
                found = n
                break
        if found is None:
            raise TranslateError(f"{rel}: {'.'.join(fn_path)} not found")
        node = found
    ifs = [n for n in ast.walk(node) if isinstance(n, ast.If) and contains in ast.unparse(n.test)]
    ifs.sort(key=lambda n: (n.lineno, n.col_offset))
    if len(ifs) <= nth:
        raise TranslateError(f"{rel}: no `if` mentioning {contains!r} in {'.'.join(fn_path)}")
    return ifs[nth]


def _returns_early(ifnode) -> bool:
    """the guarded branch ends by returning (i.e. the handler ignores the message)"""
    last = ifnode.body[-1]
    return isinstance(last, ast.Return)


def gen_guards() -> str:
    out = [HEADER.format(src="handlers/*.py (status and arithmetic guards)"),
           "From Stab.gen Require Import Gen_Status.\nOpen Scope bool_scope.\n"]

    def emit_ignore_guard(name, rel, path, contains, var_expr, doc):
        """handlers of the form `if <test>: ...; return` — the handler PROCEEDS iff test is false"""
        n = _find_if(rel, path, contains)
        if not _returns_early(n):
            _fail(rel, n, f"{name}: guarded branch does not return (handler no longer ignores the message)")
        t = Tr(rel, {var_expr: ("st", "status")}).term(n.test)
        out.append(f"(* {rel}:{n.lineno}  `if {ast.unparse(n.test)}: ... return` — {doc} *)")
        out.append(f"Definition {name} (st : status) : bool := negb {t}.\n")

    emit_ignore_guard("start_task_guard", "handlers/start_task.py", ["StartTaskHandler", "_handle_with_retry"],
                      "task_model.status", "task_model.status", "StartTask proceeds only from this status")
    emit_ignore_guard("run_task_guard", "handlers/run_task/handler.py", ["RunTaskHandler", "handle"],
                      "task_model.status", "task_model.status", "RunTask executes only in this status")
    # CompleteTask: the guard may mention the message status (the SKIPPED-by-StartTask exception)
    rel = "handlers/complete_task.py"
    n = _find_if(rel, ["CompleteTaskHandler", "_handle_with_retry"], "task.status")
    if not _returns_early(n):
        _fail(rel, n, "complete_task_guard: guarded branch does not return")
    fn = _find_func(_find_class(_parse(rel), "CompleteTaskHandler", rel).body, "_handle_with_retry", rel)
    local_defs = {}
    for x in ast.walk(fn):
        if isinstance(x, ast.Assign) and len(x.targets) == 1 and isinstance(x.targets[0], ast.Name) and x.lineno < n.lineno:
            if x.targets[0].id in local_defs:
                local_defs[x.targets[0].id] = None
            else:
                local_defs[x.targets[0].id] = x.value
    local_defs = {k: v for k, v in local_defs.items() if v is not None}
    t = Tr(rel, {"task.status": ("st", "status"), "message.status": ("ms", "status")}, local_defs).term(n.test)
    out.append(f"(* {rel}:{n.lineno} `if {ast.unparse(n.test)}: ... return` — CompleteTask records a result only when this holds *)")
    out.append(f"Definition complete_task_guard (st ms : status) : bool := negb {t}.\n")
    emit_ignore_guard("skip_stage_guard", "handlers/skip_stage.py", ["SkipStageHandler", "_handle_with_retry"],
                      "stage.status", "stage.status", "SkipStage applies only in this status")
    emit_ignore_guard("cancel_stage_guard", "handlers/cancel_stage.py", ["CancelStageHandler", "_handle_with_retry"],
                      "stage.status", "stage.status", "CancelStage applies unless ...")
    # CompleteStage: the second status test (`not in {RUNNING}`) is the completion guard
    n = _find_if("handlers/complete_stage/handler.py", ["CompleteStageHandler", "_handle_with_retry"], "stage.status not in")
    if not _returns_early(n):
        _fail("handlers/complete_stage/handler.py", n, "complete_stage_guard: branch does not return")
    t = Tr("handlers/complete_stage/handler.py", {"stage.status": ("st", "status")}).term(n.test)
    out.append(f"(* handlers/complete_stage/handler.py:{n.lineno} `if {ast.unparse(n.test)}` *)")
    out.append(f"Definition complete_stage_guard (st : status) : bool := negb {t}.\n")
    n0 = _find_if("handlers/complete_stage/handler.py", ["CompleteStageHandler", "_handle_with_retry"], "stage.status == WorkflowStatus.NOT_STARTED")
    if not _returns_early(n0) or n0.lineno > n.lineno:
        _fail("handlers/complete_stage/handler.py", n0, "stale-CompleteStage (NOT_STARTED) guard missing or misplaced")
    # StartStage claim precondition: `if stage.status != WorkflowStatus.NOT_STARTED:` in _start_if_ready
    n = _find_if("handlers/start_stage/handler.py", ["StartStageHandler", "_start_if_ready"], "stage.status")
    t = Tr("handlers/start_stage/handler.py", {"stage.status": ("st", "status")}).term(n.test)
    out.append(f"(* handlers/start_stage/handler.py:{n.lineno} `if {ast.unparse(n.test)}` — already-processed test *)")
    out.append(f"Definition start_stage_fresh (st : status) : bool := negb {t}.\n")
    # late/duplicate StartStage for a stage that already left NOT_STARTED (handle, NOT_READY path)
    n = _find_if("handlers/start_stage/handler.py", ["StartStageHandler", "handle"], "stage.status")
    if not _returns_early(n):
        _fail("handlers/start_stage/handler.py", n, "late-StartStage guard does not return")
    t = Tr("handlers/start_stage/handler.py", {"stage.status": ("st", "status")}).term(n.test)
    out.append(f"(* handlers/start_stage/handler.py:{n.lineno} `if {ast.unparse(n.test)}: return` before the wait/retry path *)")
    out.append(f"Definition start_stage_late (st : status) : bool := {t}.\n")
    # the claim CAS phase
    src = ast.unparse(_parse("handlers/start_stage/handler.py"))
    if "txn.store_stage(stage, expected_phase=claim_expected_phase)" not in src or "claim_expected_phase = 'NOT_STARTED'" not in src:
        raise TranslateError("handlers/start_stage/handler.py: claim is no longer store_stage(stage, expected_phase=claim_expected_phase) with NOT_STARTED")
    out.append("Definition start_stage_claim_uses_cas : bool := true.\n")

    # retry guard (run_task/error.py)
    rel = "handlers/run_task/error.py"
    n = _find_if(rel, ["handle_exception"], "max_attempts")
    t = Tr(rel, {"current_attempts": ("a", "Z"), "max_attempts": ("m", "Z")}).term(n.test)
    out.append(f"(* {rel}:{n.lineno} `if {ast.unparse(n.test)}` -> retry, else terminal *)")
    out.append(f"Definition retry_guard (a m : Z) : bool := {t}.\n")
    f = _find_func(_parse(rel).body, "handle_exception", rel)
    dflt = None
    cur = None
    for s in ast.walk(f):
        if isinstance(s, ast.Assign) and isinstance(s.targets[0], ast.Name):
            if s.targets[0].id == "max_attempts":
                u = ast.unparse(s.value)
                if not (u.startswith("message.max_attempts or ") and isinstance(s.value, ast.BoolOp)
                        and isinstance(s.value.values[1], ast.Constant)):
                    _fail(rel, s, "max_attempts is not `message.max_attempts or <const>`")
                dflt = s.value.values[1].value
            if s.targets[0].id == "current_attempts":
                cur = ast.unparse(s.value)
    if cur != "message.attempts or 0":
        raise TranslateError(f"{rel}: current_attempts is {cur!r}, expected `message.attempts or 0`")
    mcls = _find_class(_parse("queue/messages.py"), "Message", "queue/messages.py")
    mdef = None
    for s in mcls.body:
        if isinstance(s, ast.AnnAssign) and isinstance(s.target, ast.Name) and s.target.id == "max_attempts":
            kw = {k.arg: k.value for k in s.value.keywords} if isinstance(s.value, ast.Call) else {}
            if "default" in kw and isinstance(kw["default"], ast.Constant):
                mdef = kw["default"].value
    if not isinstance(dflt, int) or not isinstance(mdef, int) or mdef <= 0:
        raise TranslateError("could not determine the default max_attempts of a delivered message")
    out.append(f"(* Message.max_attempts default {mdef} (deserialize_message pops the stored value), `or {dflt}` *)")
    out.append(f"Definition default_max_attempts : Z := {mdef if mdef else dflt}%Z.\n")

    # wait budget
    for rel, path, nm in (("handlers/start_stage/handler.py", ["StartStageHandler", "handle"], "wait_exhausted"),
                          ("handlers/complete_workflow.py", ["CompleteWorkflowHandler", "_determine_final_status"], "wf_wait_exhausted")):
        n = _find_if(rel, path, "retry_count")
        t = Tr(rel, {"retry_count": ("r", "Z"), "max_retries": ("m", "Z")}).term(n.test)
        out.append(f"(* {rel}:{n.lineno} `if {ast.unparse(n.test)}` *)")
        out.append(f"Definition {nm} (r m : Z) : bool := {t}.\n")

    # jump budget
    rel = "handlers/jump_to_stage/handler.py"
    n = _find_if(rel, ["JumpToStageHandler", "_check_jump_count"], "jump_count")
    if not any(isinstance(x, ast.Return) and ast.unparse(x) == "return False" for x in n.body):
        _fail(rel, n, "_check_jump_count: exhausted branch does not return False")
    t = Tr(rel, {"jump_count": ("c", "Z"), "max_jumps": ("m", "Z")}).term(n.test)
    out.append(f"(* {rel}:{n.lineno} `if {ast.unparse(n.test)}` -> fail the source stage *)")
    out.append(f"Definition jump_exhausted (c m : Z) : bool := {t}.\n")
    from harness.translate import _find_assign
    d = _find_assign(_parse(rel), "DEFAULT_MAX_JUMPS", rel)
    if not (isinstance(d, ast.Constant) and isinstance(d.value, int) and d.value >= 0):
        _fail(rel, d, "DEFAULT_MAX_JUMPS is not a natural constant")
    out.append(f"Definition default_max_jumps : Z := {d.value}%Z.\n")
    cj = _find_func(_find_class(_parse(rel), "JumpToStageHandler", rel).body, "_check_jump_count", rel)
    order = [ast.unparse(x.value) for x in ast.walk(cj) if isinstance(x, ast.Assign) and ast.unparse(x.targets[0]) == "max_jumps"]
    if order != ["execution.context.get('_max_jumps')", "source_stage.context.get('_max_jumps')", "DEFAULT_MAX_JUMPS"]:
        raise TranslateError(f"{rel}: max_jumps lookup order changed: {order}")
    jc = [ast.unparse(x.value) for x in ast.walk(cj) if isinstance(x, ast.Assign) and ast.unparse(x.targets[0]) == "jump_count"]
    if jc != ["source_stage.context.get('_jump_count', 0)"]:
        raise TranslateError(f"{rel}: jump_count source changed: {jc}")

    # RunTask checks the cancel flag before executing
    rel = "handlers/run_task/handler.py"
    mod = _parse(rel)
    cls = _find_class(mod, "RunTaskHandler", rel)
    h = _find_func(cls.body, "handle", rel)
    src_lines = [(n.lineno, ast.unparse(n.test)) for n in ast.walk(h) if isinstance(n, ast.If)]
    cancel_line = min((ln for ln, t in src_lines if t == "execution.is_canceled"), default=None)
    exec_line = min((n.lineno for n in ast.walk(h) if isinstance(n, ast.Call) and ast.unparse(n.func) == "execute_with_timeout"), default=None)
    if cancel_line is None or exec_line is None or cancel_line > exec_line:
        raise TranslateError(f"{rel}: `if execution.is_canceled:` no longer precedes execute_with_timeout")
    out.append("Definition run_task_checks_cancel_before_execute : bool := true.\n")
    return "\n".join(out)


EMITTERS = {"Gen_Guards.v": gen_guards}
