"""Emitter Gen_Guards.v: the status / arithmetic guards of the handlers, taken from the AST of the
current source and emitted as Coq boolean functions under stable names.  Fail-closed."""
from __future__ import annotations

import ast

from harness.translate import TranslateError, _parse, _find_class, _find_func, _fail, HEADER

STATUS_PROPS = {"is_complete": "is_complete", "is_halt": "is_halt", "is_failure": "is_failure",
                "is_successful": "is_successful"}
STATUS_SETS = {"CONTINUABLE_STATUSES": "in_continuable", "HALT_STATUSES": "in_halt",
               "ACTIVE_STATUSES": "in_active", "COMPLETED_STATUSES": "in_completed"}


class Tr:
    """Python boolean/arith expression -> Coq term. env: unparsed python sub-expression -> (coq var, kind)
    kind in {'status', 'Z', 'bool'}"""

    def __init__(self, rel, env, local_defs=None):
        self.rel, self.env = rel, env
        self.local_defs = local_defs or {}     # name -> ast expr (single assignment in the enclosing function)

    def kind(self, n):
        u = ast.unparse(n)
        if u in self.env:
            return self.env[u][1]
        if isinstance(n, ast.Attribute) and isinstance(n.value, ast.Name) and n.value.id == "WorkflowStatus":
            return "status"
        if isinstance(n, ast.Constant) and isinstance(n.value, bool):
            return "bool"
        if isinstance(n, ast.Constant) and isinstance(n.value, int):
            return "Z"
        if isinstance(n, ast.BinOp):
            return "Z"
        return "bool"

    def term(self, n):
        u = ast.unparse(n)
        if u in self.env:
            return self.env[u][0]
        if isinstance(n, ast.Name) and n.id in self.local_defs:
            return self.term(self.local_defs[n.id])
        if isinstance(n, ast.Attribute) and isinstance(n.value, ast.Name) and n.value.id == "WorkflowStatus":
            return n.attr
        if isinstance(n, ast.Attribute) and n.attr in STATUS_PROPS and self.kind(n.value) == "status":
            return f"({STATUS_PROPS[n.attr]} {self.term(n.value)})"
        if isinstance(n, ast.Constant) and isinstance(n.value, bool):
            return "true" if n.value else "false"
        if isinstance(n, ast.Constant) and isinstance(n.value, int):
            return f"({n.value})%Z"
        if isinstance(n, ast.BinOp) and isinstance(n.op, (ast.Add, ast.Sub)):
            op = "+" if isinstance(n.op, ast.Add) else "-"
            return f"({self.term(n.left)} {op} {self.term(n.right)})%Z"
        if isinstance(n, ast.UnaryOp) and isinstance(n.op, ast.Not):
            return f"(negb {self.term(n.operand)})"
        if isinstance(n, ast.BoolOp):
            op = "&&" if isinstance(n.op, ast.And) else "||"
            return "(" + f" {op} ".join(self.term(v) for v in n.values) + ")"
        if isinstance(n, ast.Compare) and len(n.ops) == 1:
            l, r, op = n.left, n.comparators[0], n.ops[0]
            if isinstance(op, (ast.In, ast.NotIn)):
                if isinstance(r, ast.Name) and r.id in STATUS_SETS:
                    t = f"({STATUS_SETS[r.id]} {self.term(l)})"
                elif isinstance(r, (ast.Set, ast.Tuple, ast.List)):
                    t = "(" + " || ".join(f"status_eqb {self.term(l)} {self.term(e)}" for e in r.elts) + ")"
                    if not r.elts:
                        t = "false"
                else:
                    _fail(self.rel, n, f"membership in unsupported container: {ast.unparse(r)}")
                return t if isinstance(op, ast.In) else f"(negb {t})"
            k = self.kind(l)
            if k == "status" or self.kind(r) == "status":
                if isinstance(op, ast.Eq):
                    return f"(status_eqb {self.term(l)} {self.term(r)})"
                if isinstance(op, ast.NotEq):
                    return f"(negb (status_eqb {self.term(l)} {self.term(r)}))"
                _fail(self.rel, n, "ordering comparison on statuses")
            ops = {ast.Lt: "<?", ast.LtE: "<=?", ast.Eq: "=?"}
            if type(op) in ops:
                return f"({self.term(l)} {ops[type(op)]} {self.term(r)})%Z"
            if isinstance(op, ast.Gt):
                return f"({self.term(r)} <? {self.term(l)})%Z"
            if isinstance(op, ast.GtE):
                return f"({self.term(r)} <=? {self.term(l)})%Z"
            if isinstance(op, ast.NotEq):
                return f"(negb ({self.term(l)} =? {self.term(r)})%Z)"
        _fail(self.rel, n, f"untranslatable guard expression: {u}")


# ------------------------------------------------------------------------------------------------
# semantic layer: a status guard is a boolean function on a FINITE domain (the members of WorkflowStatus, or pairs of
# them).  Its truth table is computed from the AST by the evaluator below; when the table equals the table recorded
# with the reference copy (coq/gen_ref/Gen_Guards.tables.json, written by --save-ref on the unchanged tree) the
# reference definition is emitted VERBATIM: a behaviour-preserving rewrite of a guard (`x != A` for `x not in {A}`,
# a hoisted constant set, `x == A or x == B` for `x in (A, B)`, a renamed local) yields the same Gen_Guards.v.  The
# equality is decided by exhaustive enumeration of the domain - it is a proof, not a sample.  A table that differs is a
# semantic change: the new guard is emitted as translated and the proofs / the correspondence judge it.
# ------------------------------------------------------------------------------------------------

TABLES: dict = {}          # name -> {"vars": n, "true": [...]}  (filled by gen_guards; saved with the reference copy)


def _status_model():
    rel = "models/status.py"
    mod = _parse(rel)
    cls = _find_class(mod, "WorkflowStatus", rel)
    from harness.translate import _enum_members, _status_set, _find_assign
    members, comp, halt = [], set(), set()
    for nm, val in _enum_members(cls, rel):
        if not (isinstance(val, ast.Tuple) and len(val.elts) == 3 and all(isinstance(e, ast.Constant) for e in val.elts)):
            _fail(rel, val, "status member is not a (name, complete, halt) constant tuple")
        members.append(nm)
        if val.elts[1].value:
            comp.add(nm)
        if val.elts[2].value:
            halt.add(nm)
    sets = {}
    for py in ("COMPLETED_STATUSES", "_SUCCESSFUL_STATUSES", "_FAILURE_STATUSES", "CONTINUABLE_STATUSES", "HALT_STATUSES", "ACTIVE_STATUSES"):
        sets[py] = set(_status_set(_find_assign(mod, py, rel), rel))
    props = {"is_complete": comp, "is_halt": halt, "is_successful": sets["_SUCCESSFUL_STATUSES"], "is_failure": sets["_FAILURE_STATUSES"]}
    return members, sets, props


class Ev:
    """evaluate a guard test under a valuation of its status expressions"""

    def __init__(self, rel, valuation, local_defs, model):
        self.rel, self.val, self.local_defs = rel, valuation, local_defs or {}
        self.members, self.sets, self.props = model
        self.consts = {}
        for n in _parse(rel).body:        # module-level constants (a hoisted set of statuses)
            if isinstance(n, ast.Assign) and len(n.targets) == 1 and isinstance(n.targets[0], ast.Name):
                self.consts[n.targets[0].id] = n.value
            elif isinstance(n, ast.AnnAssign) and isinstance(n.target, ast.Name) and n.value is not None:
                self.consts[n.target.id] = n.value

    def value(self, n, depth=0):
        if depth > 8:
            _fail(self.rel, n, "guard expression nests too deeply")
        u = ast.unparse(n)
        if u in self.val:
            return ("status", self.val[u])
        if isinstance(n, ast.Attribute) and isinstance(n.value, ast.Name) and n.value.id == "WorkflowStatus":
            if n.attr not in self.members:
                _fail(self.rel, n, f"unknown status {n.attr}")
            return ("status", n.attr)
        if isinstance(n, ast.Constant) and isinstance(n.value, bool):
            return ("bool", n.value)
        if isinstance(n, ast.Name):
            if n.id in self.local_defs:
                return self.value(self.local_defs[n.id], depth + 1)
            if n.id in self.sets:
                return ("set", frozenset(self.sets[n.id]))
            if n.id in self.consts:
                return self.value(self.consts[n.id], depth + 1)
            _fail(self.rel, n, f"free name {n.id} in a status guard")
        if isinstance(n, ast.Call) and isinstance(n.func, ast.Name) and n.func.id in ("frozenset", "set", "tuple") and len(n.args) <= 1:
            return ("set", frozenset()) if not n.args else self.value(n.args[0], depth + 1)
        if isinstance(n, (ast.Set, ast.Tuple, ast.List)):
            out = set()
            for e in n.elts:
                k, v = self.value(e, depth + 1)
                if k != "status":
                    _fail(self.rel, e, "non-status element in a status container")
                out.add(v)
            return ("set", frozenset(out))
        if isinstance(n, ast.Attribute) and n.attr in self.props:
            k, v = self.value(n.value, depth + 1)
            if k != "status":
                _fail(self.rel, n, f".{n.attr} of a non-status")
            return ("bool", v in self.props[n.attr])
        if isinstance(n, ast.UnaryOp) and isinstance(n.op, ast.Not):
            return ("bool", not self.truth(n.operand, depth + 1))
        if isinstance(n, ast.BoolOp):
            vs = [self.truth(v, depth + 1) for v in n.values]
            return ("bool", all(vs) if isinstance(n.op, ast.And) else any(vs))
        if isinstance(n, ast.Compare) and len(n.ops) == 1:
            op = n.ops[0]
            lk, lv = self.value(n.left, depth + 1)
            rk, rv = self.value(n.comparators[0], depth + 1)
            if isinstance(op, (ast.In, ast.NotIn)) and lk == "status" and rk == "set":
                return ("bool", (lv in rv) == isinstance(op, ast.In))
            if isinstance(op, (ast.Eq, ast.Is, ast.NotEq, ast.IsNot)) and lk == rk and lk in ("status", "bool"):
                return ("bool", (lv == rv) == isinstance(op, (ast.Eq, ast.Is)))
        _fail(self.rel, n, f"status guard outside the evaluator's fragment: {u}")

    def truth(self, n, depth=0):
        k, v = self.value(n, depth)
        if k != "bool":
            _fail(self.rel, n, "guard is not boolean")
        return v


def _table(rel, test, var_exprs, local_defs, model):
    """truth table of `test` over all valuations of var_exprs (1 or 2 status expressions): the list of true points"""
    members = model[0]
    pts = []
    if len(var_exprs) == 1:
        for a in members:
            if Ev(rel, {var_exprs[0]: a}, local_defs, model).truth(test):
                pts.append(a)
    else:
        for a in members:
            for b in members:
                if Ev(rel, {var_exprs[0]: a, var_exprs[1]: b}, local_defs, model).truth(test):
                    pts.append(a + "," + b)
    return pts


def _ref_guards():
    """(tables, definition text by name) recorded with the reference copy; ({}, {}) when absent"""
    import json
    from harness import lib
    try:
        tables = json.loads((lib.COQ / "gen_ref" / "Gen_Guards.tables.json").read_text())
        text = (lib.COQ / "gen_ref" / "Gen_Guards.v").read_text()
    except Exception:
        return {}, {}
    defs = {}
    for ln in text.splitlines():
        if ln.startswith("Definition "):
            defs[ln.split()[1]] = ln
    return tables, defs


def _status_exprs(test, base_hint):
    """distinct `<name>.status` expressions in the test whose base name contains base_hint (a renamed local is tolerated)"""
    out = []
    for x in ast.walk(test):
        if isinstance(x, ast.Attribute) and x.attr == "status" and isinstance(x.value, ast.Name) and base_hint in x.value.id.lower():
            u = ast.unparse(x)
            if u not in out:
                out.append(u)
    return out


def _find_status_ifs(rel, fn_path, base_hint, early_only=True):
    """the `if`s (source order) of a function whose test reads `<...base_hint...>.status`, optionally only those whose
    branch returns"""
    mod = _parse(rel)
    node = mod
    for name in fn_path:
        found = None
        for n in ast.walk(node):
            if isinstance(n, (ast.FunctionDef, ast.ClassDef)) and n.name == name:
                found = n
                break
        if found is None:
            raise TranslateError(f"{rel}: {'.'.join(fn_path)} not found")
        node = found
    ifs = [n for n in ast.walk(node) if isinstance(n, ast.If) and _status_exprs(n.test, base_hint)
           and (not early_only or _returns_early(n))]
    ifs.sort(key=lambda n: (n.lineno, n.col_offset))
    return ifs


def _find_if(rel, fn_path, contains, nth=0):
    """first `if` (source order) inside the function whose test mentions `contains`"""
    mod = _parse(rel)
    node = mod
    for name in fn_path:
        body = node.body
        found = None
        for n in ast.walk(node):
            if isinstance(n, (ast.FunctionDef, ast.ClassDef)) and n.name == name:
                found = n
                break
        if found is None:
            raise TranslateError(f"{rel}: {'.'.join(fn_path)} not found")
        node = found
    ifs = [n for n in ast.walk(node) if isinstance(n, ast.If) and contains in ast.unparse(n.test)]
    ifs.sort(key=lambda n: (n.lineno, n.col_offset))
    if len(ifs) <= nth:
        raise TranslateError(f"{rel}: no `if` mentioning {contains!r} in {'.'.join(fn_path)}")
    return ifs[nth]


def _returns_early(ifnode) -> bool:
    """the guarded branch ends by returning (i.e. the handler ignores the message)"""
    last = ifnode.body[-1]
    return isinstance(last, ast.Return)


def gen_guards() -> str:
    out = [HEADER.format(src="handlers/*.py (status and arithmetic guards)"),
           "From Stab.gen Require Import Gen_Status.\nOpen Scope bool_scope.\n"]

    model = _status_model()
    ref_tables, ref_defs = _ref_guards()
    TABLES.clear()

    def emit_status_guard(name, rel, n, var_exprs, coq_vars, negate, doc, local_defs=None):
        """n = the located `if`; the Coq guard is the test (negated when the handler PROCEEDS iff the test is false)"""
        test = n.test
        pts = err = text = None
        try:
            pts = _table(rel, test, var_exprs, local_defs, model)
            TABLES[name] = {"vars": len(var_exprs), "true": pts, "negated": negate}
        except TranslateError:
            pts = None
        try:
            t = Tr(rel, {e: (v, "status") for e, v in zip(var_exprs, coq_vars)}, local_defs).term(test)
            text = f"Definition {name} ({' '.join(coq_vars)} : status) : bool := " + (f"negb {t}." if negate else f"{t}.")
        except TranslateError as e:
            err = e
        ref = ref_tables.get(name)
        note = ""
        if pts is not None and ref and ref.get("true") == pts and ref.get("vars") == len(var_exprs) and ref.get("negated") == negate \
                and name in ref_defs:
            chosen = ref_defs[name]
            if chosen != text:
                note = " [equal to the reference guard on the whole status domain (exhaustive): reference definition kept]"
        elif text is not None:
            chosen = text
        elif pts is not None:
            if len(coq_vars) == 1:
                body = " || ".join(f"status_eqb {coq_vars[0]} {a}" for a in pts) or "false"
            else:
                body = " || ".join("(status_eqb %s %s && status_eqb %s %s)" % (coq_vars[0], q.split(",")[0], coq_vars[1], q.split(",")[1])
                                   for q in pts) or "false"
            chosen = f"Definition {name} ({' '.join(coq_vars)} : status) : bool := " + (f"negb ({body})." if negate else f"({body}).")
            note = " [truth table over the whole status domain]"
        else:
            raise err
        out.append(f"(* {rel}:{n.lineno}  `if {ast.unparse(test)}` — {doc}{note} *)")
        out.append(chosen + "\n")

    def one_status_expr(rel, n, hint):
        es = _status_exprs(n.test, hint)
        if len(es) != 1:
            _fail(rel, n, f"guard reads {es}, expected one `<{hint}…>.status` expression")
        return es[0]

    def first_ignore_guard(name, rel, path, hint, doc):
        """handlers of the form `if <test>: ...; return` — the handler PROCEEDS iff test is false"""
        ifs = _find_status_ifs(rel, path, hint)
        if not ifs:
            raise TranslateError(f"{rel}: no early-returning `if` on a {hint} status in {'.'.join(path)}")
        n = ifs[0]
        emit_status_guard(name, rel, n, [one_status_expr(rel, n, hint)], ["st"], True, doc)
        return n

    first_ignore_guard("start_task_guard", "handlers/start_task.py", ["StartTaskHandler", "_handle_with_retry"], "task",
                       "StartTask proceeds only from this status")
    first_ignore_guard("run_task_guard", "handlers/run_task/handler.py", ["RunTaskHandler", "handle"], "task",
                       "RunTask executes only in this status")
    # CompleteTask: the guard may mention the message status (the SKIPPED-by-StartTask exception)
    rel = "handlers/complete_task.py"
    ifs = _find_status_ifs(rel, ["CompleteTaskHandler", "_handle_with_retry"], "task")
    if not ifs:
        raise TranslateError(f"{rel}: no early-returning `if` on the task status in CompleteTaskHandler._handle_with_retry")
    n = ifs[0]
    fn = _find_func(_find_class(_parse(rel), "CompleteTaskHandler", rel).body, "_handle_with_retry", rel)
    local_defs = {}
    for x in ast.walk(fn):
        if isinstance(x, ast.Assign) and len(x.targets) == 1 and isinstance(x.targets[0], ast.Name) and x.lineno < n.lineno:
            if x.targets[0].id in local_defs:
                local_defs[x.targets[0].id] = None
            else:
                local_defs[x.targets[0].id] = x.value
    local_defs = {k: v for k, v in local_defs.items() if v is not None}
    emit_status_guard("complete_task_guard", rel, n, [one_status_expr(rel, n, "task"), "message.status"], ["st", "ms"], True,
                      "CompleteTask records a result only when this holds", local_defs)
    first_ignore_guard("skip_stage_guard", "handlers/skip_stage.py", ["SkipStageHandler", "_handle_with_retry"], "stage",
                       "SkipStage applies only in this status")
    first_ignore_guard("cancel_stage_guard", "handlers/cancel_stage.py", ["CancelStageHandler", "_handle_with_retry"], "stage",
                       "CancelStage applies unless ...")
    # CompleteStage: the first early-returning status test is the stale-message guard (exactly NOT_STARTED), the second
    # one is the completion guard
    rel = "handlers/complete_stage/handler.py"
    ifs = _find_status_ifs(rel, ["CompleteStageHandler", "_handle_with_retry"], "stage")
    if len(ifs) < 2:
        raise TranslateError(f"{rel}: CompleteStageHandler._handle_with_retry has {len(ifs)} early-returning status tests, expected the stale-message guard and the completion guard")
    n0, n = ifs[0], ifs[1]
    if _table(rel, n0.test, [one_status_expr(rel, n0, "stage")], None, model) != ["NOT_STARTED"]:
        _fail(rel, n0, "stale-CompleteStage (NOT_STARTED) guard missing or misplaced")
    emit_status_guard("complete_stage_guard", rel, n, [one_status_expr(rel, n, "stage")], ["st"], True, "the completion guard")
    # StartStage claim precondition: `if stage.status != WorkflowStatus.NOT_STARTED:` in _start_if_ready
    rel = "handlers/start_stage/handler.py"
    ifs = _find_status_ifs(rel, ["StartStageHandler", "_start_if_ready"], "stage", early_only=False)
    if not ifs:
        raise TranslateError(f"{rel}: no status test in _start_if_ready")
    emit_status_guard("start_stage_fresh", rel, ifs[0], [one_status_expr(rel, ifs[0], "stage")], ["st"], True, "already-processed test")
    # late/duplicate StartStage for a stage that already left NOT_STARTED (handle, NOT_READY path)
    ifs = _find_status_ifs(rel, ["StartStageHandler", "handle"], "stage")
    if not ifs:
        raise TranslateError(f"{rel}: late-StartStage guard (early return on the stage status in handle) not found")
    emit_status_guard("start_stage_late", rel, ifs[0], [one_status_expr(rel, ifs[0], "stage")], ["st"], False,
                      "`return` before the wait/retry path")
    # the claim CAS phase
    src = ast.unparse(_parse("handlers/start_stage/handler.py"))
    if "txn.store_stage(stage, expected_phase=claim_expected_phase)" not in src or "claim_expected_phase = 'NOT_STARTED'" not in src:
        raise TranslateError("handlers/start_stage/handler.py: claim is no longer store_stage(stage, expected_phase=claim_expected_phase) with NOT_STARTED")
    out.append("Definition start_stage_claim_uses_cas : bool := true.\n")

    # retry guard (run_task/error.py)
    rel = "handlers/run_task/error.py"
    n = _find_if(rel, ["handle_exception"], "max_attempts")
    t = Tr(rel, {"current_attempts": ("a", "Z"), "max_attempts": ("m", "Z")}).term(n.test)
    out.append(f"(* {rel}:{n.lineno} `if {ast.unparse(n.test)}` -> retry, else terminal *)")
    out.append(f"Definition retry_guard (a m : Z) : bool := {t}.\n")
    f = _find_func(_parse(rel).body, "handle_exception", rel)
    dflt = None
    cur = None
    for s in ast.walk(f):
        if isinstance(s, ast.Assign) and isinstance(s.targets[0], ast.Name):
            if s.targets[0].id == "max_attempts":
                u = ast.unparse(s.value)
                if not (u.startswith("message.max_attempts or ") and isinstance(s.value, ast.BoolOp)
                        and isinstance(s.value.values[1], ast.Constant)):
                    _fail(rel, s, "max_attempts is not `message.max_attempts or <const>`")
                dflt = s.value.values[1].value
            if s.targets[0].id == "current_attempts":
                cur = ast.unparse(s.value)
    if cur != "message.attempts or 0":
        raise TranslateError(f"{rel}: current_attempts is {cur!r}, expected `message.attempts or 0`")
    mcls = _find_class(_parse("queue/messages.py"), "Message", "queue/messages.py")
    mdef = None
    for s in mcls.body:
        if isinstance(s, ast.AnnAssign) and isinstance(s.target, ast.Name) and s.target.id == "max_attempts":
            kw = {k.arg: k.value for k in s.value.keywords} if isinstance(s.value, ast.Call) else {}
            if "default" in kw and isinstance(kw["default"], ast.Constant):
                mdef = kw["default"].value
    if not isinstance(dflt, int) or not isinstance(mdef, int) or mdef <= 0:
        raise TranslateError("could not determine the default max_attempts of a delivered message")
    out.append(f"(* Message.max_attempts default {mdef} (deserialize_message pops the stored value), `or {dflt}` *)")
    out.append(f"Definition default_max_attempts : Z := {mdef if mdef else dflt}%Z.\n")

    # wait budget
    for rel, path, nm in (("handlers/start_stage/handler.py", ["StartStageHandler", "handle"], "wait_exhausted"),
                          ("handlers/complete_workflow.py", ["CompleteWorkflowHandler", "_determine_final_status"], "wf_wait_exhausted")):
        n = _find_if(rel, path, "retry_count")
        t = Tr(rel, {"retry_count": ("r", "Z"), "max_retries": ("m", "Z")}).term(n.test)
        out.append(f"(* {rel}:{n.lineno} `if {ast.unparse(n.test)}` *)")
        out.append(f"Definition {nm} (r m : Z) : bool := {t}.\n")

    # jump budget
    rel = "handlers/jump_to_stage/handler.py"
    n = _find_if(rel, ["JumpToStageHandler", "_check_jump_count"], "jump_count")
    cjf = _find_func(_find_class(_parse(rel), "JumpToStageHandler", rel).body, "_check_jump_count", rel)
    test = n.test
    if any(isinstance(x, ast.Return) and ast.unparse(x) == "return False" for x in n.body):
        pass                                   # `if <exhausted>: ...; return False`
    elif (len(n.body) >= 1 and ast.unparse(n.body[-1]) == "return True" and not n.orelse and any(isinstance(x, ast.If) and x.lineno == n.lineno for x in cjf.body)
          and ast.unparse(cjf.body[-1]) == "return False"):
        # flipped: `if <within the limit>: return True` ... `return False` at the end of the function
        test = test.operand if isinstance(test, ast.UnaryOp) and isinstance(test.op, ast.Not) else ast.UnaryOp(op=ast.Not(), operand=test)
    else:
        _fail(rel, n, "_check_jump_count: exhausted branch does not return False")
    t = Tr(rel, {"jump_count": ("c", "Z"), "max_jumps": ("m", "Z")}).term(test)
    out.append(f"(* {rel}:{n.lineno} `if {ast.unparse(n.test)}` -> fail the source stage *)")
    out.append(f"Definition jump_exhausted (c m : Z) : bool := {t}.\n")
    from harness.translate import _find_assign
    d = _find_assign(_parse(rel), "DEFAULT_MAX_JUMPS", rel)
    if not (isinstance(d, ast.Constant) and isinstance(d.value, int) and d.value >= 0):
        _fail(rel, d, "DEFAULT_MAX_JUMPS is not a natural constant")
    out.append(f"Definition default_max_jumps : Z := {d.value}%Z.\n")
    jcls = _find_class(_parse(rel), "JumpToStageHandler", rel)
    cj = _find_func(jcls.body, "_check_jump_count", rel)
    order = [ast.unparse(x.value) for x in ast.walk(cj) if isinstance(x, ast.Assign) and ast.unparse(x.targets[0]) == "max_jumps"]
    if len(order) == 1 and order[0].startswith("self.") and order[0].endswith("(execution, source_stage)"):
        # the lookup was extracted into a helper method taking (execution, source_stage): read the order there
        helper = _find_func(jcls.body, order[0][len("self."):-len("(execution, source_stage)")], rel)
        if [a.arg for a in helper.args.args if a.arg != "self"] != ["execution", "source_stage"] or \
                ast.unparse(helper.body[-1]) != "return max_jumps":
            _fail(rel, helper, "max_jumps helper has an unexpected shape")
        order = [ast.unparse(x.value) for x in ast.walk(helper) if isinstance(x, ast.Assign) and ast.unparse(x.targets[0]) == "max_jumps"]
    if order != ["execution.context.get('_max_jumps')", "source_stage.context.get('_max_jumps')", "DEFAULT_MAX_JUMPS"]:
        raise TranslateError(f"{rel}: max_jumps lookup order changed: {order}")
    jc = [ast.unparse(x.value) for x in ast.walk(cj) if isinstance(x, ast.Assign) and ast.unparse(x.targets[0]) == "jump_count"]
    if jc != ["source_stage.context.get('_jump_count', 0)"]:
        raise TranslateError(f"{rel}: jump_count source changed: {jc}")

    # RunTask checks the cancel flag before executing
    rel = "handlers/run_task/handler.py"
    mod = _parse(rel)
    cls = _find_class(mod, "RunTaskHandler", rel)
    h = _find_func(cls.body, "handle", rel)
    src_lines = [(n.lineno, ast.unparse(n.test)) for n in ast.walk(h) if isinstance(n, ast.If)]
    cancel_line = min((ln for ln, t in src_lines if t == "execution.is_canceled"), default=None)
    exec_line = min((n.lineno for n in ast.walk(h) if isinstance(n, ast.Call) and ast.unparse(n.func) == "execute_with_timeout"), default=None)
    if cancel_line is None or exec_line is None or cancel_line > exec_line:
        raise TranslateError(f"{rel}: `if execution.is_canceled:` no longer precedes execute_with_timeout")
    out.append("Definition run_task_checks_cancel_before_execute : bool := true.\n")
    return "\n".join(out)


EMITTERS = {"Gen_Guards.v": gen_guards}
