"""Translator emitter for C07: the shape of the optimistic-lock statements, as booleans.

From  persistence/sqlite/store/stage_ops.py:store_stage   (prefix plain_)
      persistence/sqlite/transaction.py:AtomicTransaction.store_stage   (prefix txn_)
      persistence/sqlite/helpers.py:upsert_task   (prefix task_)
      persistence/sqlite/store/store.py:SqliteWorkflowStore.transaction   (prefix txn_ctx_)
      handlers/complete_stage/split_logic.py:_update_join_tracking   (join_tracking_max_tries)
      handlers/base.py:retry_on_concurrency_error   (retry_* flags)

For each of the four `UPDATE stage_executions` statements: which conjuncts the WHERE clause has
(id, version, status), whether the SET list contains `version = version + 1` and writes the payload
columns, which Python value is bound to :version / :id / :expected_phase; whether `cursor.rowcount == 0`
leads to `raise ConcurrencyError` on every path; whether tasks are upserted; where commit / rollback
happen.  coq/model/Occ.v is parameterised by these definitions, so deleting `AND version = :version`
or the rowcount test changes a generated definition and the C07 theorems no longer check.

Fail-closed: anything outside the recognised shapes raises TranslateError.
"""
from __future__ import annotations

import ast
import re

from harness import translate as T
from harness.translate import TranslateError

PAYLOAD_COLS = ("status", "context", "outputs")


def _b(x: bool) -> str:
    return "true" if x else "false"


def _sql_calls(fn: ast.FunctionDef, table_re: str):
    """(call node, sql text, params dict node|None) for every <x>.execute("<sql>", {...}) whose SQL matches."""
    out = []
    for node in ast.walk(fn):
        if isinstance(node, ast.Call) and isinstance(node.func, ast.Attribute) and node.func.attr == "execute" and node.args:
            a0 = node.args[0]
            if isinstance(a0, ast.Constant) and isinstance(a0.value, str) and re.search(table_re, a0.value, re.S | re.I):
                params = node.args[1] if len(node.args) > 1 else None
                out.append((node, " ".join(a0.value.split()), params))
    return out


def _parse_update(rel: str, node: ast.AST, sql: str, table: str):
    m = re.fullmatch(rf"UPDATE {table} SET (.*?) WHERE (.*)", sql, re.S)
    if not m:
        T._fail(rel, node, f"UPDATE {table} statement has an unexpected shape: {sql[:80]!r}")
    sets = {}
    for part in m.group(1).split(","):
        mm = re.fullmatch(r"\s*(\w+)\s*=\s*(.+?)\s*", part)
        if not mm:
            T._fail(rel, node, f"unparsable SET item {part!r}")
        if mm.group(1) in sets:
            T._fail(rel, node, f"column {mm.group(1)} set twice")
        sets[mm.group(1)] = mm.group(2)
    where = {}
    wtxt = m.group(2)
    if re.search(r"\bOR\b|\(|\)|<|>|!=|\bNOT\b|\bIN\b|\bIS\b", wtxt, re.I):
        T._fail(rel, node, f"WHERE clause is not a conjunction of equalities: {wtxt!r}")
    for part in re.split(r"\bAND\b", wtxt, flags=re.I):
        mm = re.fullmatch(r"\s*(\w+)\s*=\s*:(\w+)\s*", part)
        if not mm:
            T._fail(rel, node, f"unparsable WHERE conjunct {part!r}")
        where[mm.group(1)] = mm.group(2)
    return sets, where


def _params(rel: str, node, pnode) -> dict:
    if not isinstance(pnode, ast.Dict):
        T._fail(rel, node, "statement parameters are not a dict literal")
    out = {}
    for k, v in zip(pnode.keys, pnode.values):
        if not (isinstance(k, ast.Constant) and isinstance(k.value, str)):
            T._fail(rel, k or node, "parameter key is not a string constant")
        out[k.value] = ast.unparse(v)
    return out


def _bump_of(rel, node, sets, col="version") -> bool:
    if col not in sets:
        return False
    e = re.sub(r"\s+", "", sets[col])
    if e == f"{col}+1":
        return True
    T._fail(rel, node, f"{col} is set to {sets[col]!r}, neither absent nor `{col} + 1`")


def _raises_concurrency(stmts) -> bool:
    """every path through stmts ends in `raise ConcurrencyError(...)`"""
    if not stmts:
        return False
    last = stmts[-1]
    if isinstance(last, ast.Raise) and isinstance(last.exc, ast.Call) and isinstance(last.exc.func, ast.Name) \
            and last.exc.func.id == "ConcurrencyError":
        # earlier statements may be nested ifs that raise too; they cannot fall through past `last`
        return True
    if isinstance(last, ast.If) and last.orelse:
        return _raises_concurrency(last.body) and _raises_concurrency(last.orelse)
    return False


def _is_rowcount_zero(test: ast.expr) -> bool:
    return ast.unparse(test) == "cursor.rowcount == 0"


def _mentions_rowcount(n: ast.AST) -> bool:
    return any(isinstance(x, ast.Attribute) and x.attr == "rowcount" for x in ast.walk(n))


def _store_stage_shape(rel: str, fn: ast.FunctionDef, prefix: str, conn_name: str) -> list[str]:
    """Shape of one copy of store_stage."""
    T.unfold_inlined_temp(fn, "exists", "result.fetchone() is not None")
    # the `if exists:` statement
    top = [s for s in fn.body if isinstance(s, ast.If) and ast.unparse(s.test) == "exists"]
    if len(top) != 1:
        T._fail(rel, fn, "store_stage has no single `if exists:` statement")
    ex = top[0]
    exists_assign = [s for s in fn.body if isinstance(s, ast.Assign) and ast.unparse(s.targets[0]) == "exists"]
    if len(exists_assign) != 1 or ast.unparse(exists_assign[0].value) != "result.fetchone() is not None":
        T._fail(rel, fn, "`exists` is not `result.fetchone() is not None`")
    sel = _sql_calls(fn, r"^\s*SELECT id FROM stage_executions WHERE id = :id\s*$")
    if len(sel) != 1 or _params(rel, sel[0][0], sel[0][2]) != {"id": "stage.id"}:
        T._fail(rel, fn, "existence probe is not `SELECT id FROM stage_executions WHERE id = :id` bound to stage.id")
    body = ex.body
    if not (body and isinstance(body[0], ast.If) and ast.unparse(body[0].test) == "expected_phase is not None" and body[0].orelse):
        T._fail(rel, ex, "first statement under `if exists:` is not `if expected_phase is not None: … else: …`")
    br = body[0]
    out = []
    for tag, stmts in (("phase", br.body), ("nophase", br.orelse)):
        holder = ast.Module(body=stmts, type_ignores=[])
        calls = _sql_calls(holder, r"^\s*UPDATE\s+stage_executions\b")
        if len(calls) != 1:
            T._fail(rel, br, f"{tag} branch does not contain exactly one UPDATE stage_executions")
        node, sql, pnode = calls[0]
        if not (len(stmts) == 1 and isinstance(stmts[0], ast.Assign) and ast.unparse(stmts[0].targets[0]) == "cursor"
                and stmts[0].value is node and ast.unparse(node.func) == f"{conn_name}.execute"):
            T._fail(rel, br, f"{tag} branch is not `cursor = {conn_name}.execute(UPDATE …)`")
        sets, where = _parse_update(rel, node, sql, "stage_executions")
        params = _params(rel, node, pnode)
        for col, par in where.items():
            if col not in ("id", "version", "status"):
                T._fail(rel, node, f"unexpected WHERE column {col}")
            want_par = {"id": "id", "version": "version", "status": "expected_phase"}[col]
            if par != want_par:
                T._fail(rel, node, f"WHERE {col} = :{par}; expected :{want_par}")
        want_bind = {"id": "stage.id", "version": "stage.version", "expected_phase": "expected_phase"}
        for par in where.values():
            if params.get(par) != want_bind[par]:
                T._fail(rel, node, f":{par} is bound to {params.get(par)!r}, expected {want_bind[par]!r}")
        if tag == "nophase" and "status" in where:
            T._fail(rel, node, "statement without expected_phase has a status conjunct")
        pay = all(c in sets for c in PAYLOAD_COLS)
        if any(c in sets for c in PAYLOAD_COLS) and not pay:
            T._fail(rel, node, "only some of status/context/outputs are written")
        if pay and (sets["status"], sets["context"], sets["outputs"]) != (":status", ":context", ":outputs"):
            T._fail(rel, node, "payload columns are not set from :status/:context/:outputs")
        if pay and (params.get("status"), params.get("context"), params.get("outputs")) != (
                "stage.status.name", "json.dumps(stage.context, default=str)", "json.dumps(stage.outputs, default=str)"):
            T._fail(rel, node, "payload parameters are not taken from the stage being stored")
        out.append(f"Definition {prefix}_{tag}_where_id : bool := {_b('id' in where)}.")
        out.append(f"Definition {prefix}_{tag}_where_version : bool := {_b('version' in where)}.")
        out.append(f"Definition {prefix}_{tag}_where_status : bool := {_b('status' in where)}.")
        out.append(f"Definition {prefix}_{tag}_bumps_version : bool := {_b(_bump_of(rel, node, sets))}.")
        out.append(f"Definition {prefix}_{tag}_sets_payload : bool := {_b(pay)}.")
    rest = body[1:]
    # rowcount test: the statement right after the UPDATE
    rc = [s for s in rest if isinstance(s, ast.If) and _mentions_rowcount(s.test)]
    if len(rc) > 1:
        T._fail(rel, ex, "several rowcount tests")
    if rc:
        if rest[0] is not rc[0]:
            T._fail(rel, rc[0], "the rowcount test does not directly follow the UPDATE")
        if not _is_rowcount_zero(rc[0].test) or rc[0].orelse:
            T._fail(rel, rc[0], "rowcount test is not `if cursor.rowcount == 0:` without else")
        if not _raises_concurrency(rc[0].body):
            T._fail(rel, rc[0], "a path through the rowcount==0 branch does not raise ConcurrencyError")
        rest = rest[1:]
    for s in rest:
        if _mentions_rowcount(s):
            T._fail(rel, s, "rowcount used outside the recognised test")
    out.append(f"Definition {prefix}_rowcount_check : bool := {_b(bool(rc))}.")
    # remaining statements: [staged_objects.append] ; stage.version += 1 ; for task in stage.tasks: [append]; upsert_task(conn, task, stage.id)
    local_bump = False
    upserts = False
    for s in rest:
        u = ast.unparse(s)
        if u == "stage.version += 1":
            if upserts:
                T._fail(rel, s, "local version bump after the task loop")
            local_bump = True
        elif isinstance(s, ast.For) and ast.unparse(s.iter) == "stage.tasks" and ast.unparse(s.target) == "task":
            inner = [ast.unparse(x) for x in s.body if not ast.unparse(x).startswith("self._staged_objects.append")]
            if inner != [f"upsert_task({conn_name}, task, stage.id)"] or s.orelse:
                T._fail(rel, s, "task loop is not `upsert_task(conn, task, stage.id)` per task")
            upserts = True
        elif u.startswith("self._staged_objects.append"):
            pass
        else:
            T._fail(rel, s, f"unexpected statement under `if exists:`: {u[:60]!r}")
    out.append(f"Definition {prefix}_local_version_bump : bool := {_b(local_bump)}.")
    out.append(f"Definition {prefix}_upserts_tasks : bool := {_b(upserts)}.")
    if [ast.unparse(s) for s in ex.orelse] != [f"insert_stage({conn_name}, stage, stage.execution.id)"]:
        T._fail(rel, ex, "else branch of `if exists:` is not insert_stage(conn, stage, stage.execution.id)")
    # no try/except, no rollback inside store_stage itself
    for n in ast.walk(fn):
        if isinstance(n, (ast.Try, ast.With)):
            T._fail(rel, n, "store_stage contains try/with (not modelled)")
    tail = [ast.unparse(s) for s in fn.body[fn.body.index(ex) + 1:]]
    return out, tail


def gen_occ() -> str:
    out = [T.HEADER.format(src="persistence/sqlite/store/stage_ops.py, persistence/sqlite/transaction.py, "
                               "persistence/sqlite/helpers.py, persistence/sqlite/store/store.py, "
                               "handlers/complete_stage/split_logic.py, handlers/base.py")]
    # ---- plain store_stage
    rel = "persistence/sqlite/store/stage_ops.py"
    mod = T._parse(rel)
    fn = T._find_func(T._find_class(mod, "SqliteStageOpsMixin", rel).body, "store_stage", rel)
    if [a.arg for a in fn.args.args] != ["self", "stage", "expected_phase"]:
        T._fail(rel, fn, "store_stage signature changed")
    lines, tail = _store_stage_shape(rel, fn, "plain", "conn")
    out += lines
    if tail not in (["conn.commit()"], []):
        T._fail(rel, fn, f"unexpected statements after `if exists:` in store_stage: {tail}")
    out.append(f"Definition plain_commits : bool := {_b(tail == ['conn.commit()'])}.")
    if not any(isinstance(s, ast.Assign) and ast.unparse(s) == "conn = self._get_connection()" for s in fn.body):
        T._fail(rel, fn, "store_stage does not use the thread-local connection")
    out.append("(* a ConcurrencyError leaves store_stage without rollback: the implicit transaction stays open *)")
    out.append("Definition plain_rollback_on_error : bool := false.\n")
    # ---- transactional store_stage
    rel = "persistence/sqlite/transaction.py"
    mod = T._parse(rel)
    cls = T._find_class(mod, "AtomicTransaction", rel)
    fn = T._find_func(cls.body, "store_stage", rel)
    if [a.arg for a in fn.args.args] != ["self", "stage", "expected_phase"]:
        T._fail(rel, fn, "AtomicTransaction.store_stage signature changed")
    lines, tail = _store_stage_shape(rel, fn, "txn", "self._conn")
    out += lines
    if tail:
        T._fail(rel, fn, f"AtomicTransaction.store_stage has statements after `if exists:`: {tail} (it must not commit)")
    rb = T._find_func(cls.body, "rollback_versions", rel)
    rb_ok = any(isinstance(s, ast.For) and [ast.unparse(x) for x in s.body] == ["stage.version = original_version"] for s in rb.body)
    staged = sum(1 for n in ast.walk(fn) if isinstance(n, ast.Call) and ast.unparse(n.func) == "self._staged_objects.append")
    out.append(f"Definition txn_ctx_restores_versions : bool := {_b(rb_ok and staged == 2)}.")
    # ---- store.transaction context manager
    rel = "persistence/sqlite/store/store.py"
    mod = T._parse(rel)
    fn = T._find_func(T._find_class(mod, "SqliteWorkflowStore", rel).body, "transaction", rel)
    tries = [s for s in fn.body if isinstance(s, ast.Try)]
    if len(tries) != 1:
        T._fail(rel, fn, "transaction() has no single try statement")
    tr = tries[0]
    tb = [ast.unparse(s) for s in tr.body]
    if not tb or tb[0] != "yield txn" or any(x not in ("yield txn", "conn.commit()") for x in tb):
        T._fail(rel, tr, f"transaction() try body is {tb}, expected [yield txn, conn.commit()]")
    out.append(f"Definition txn_ctx_commits : bool := {_b(tb == ['yield txn', 'conn.commit()'])}.")
    if len(tr.handlers) != 1 or ast.unparse(tr.handlers[0].type) != "Exception":
        T._fail(rel, tr, "transaction() does not have exactly one `except Exception` handler")
    hb = [ast.unparse(s) for s in tr.handlers[0].body]
    if not hb or hb[-1] != "raise":
        T._fail(rel, tr, "transaction() exception handler does not re-raise")
    out.append(f"Definition txn_ctx_rollback : bool := {_b('conn.rollback()' in hb)}.")
    out.append(f"Definition txn_ctx_calls_rollback_versions : bool := {_b('txn.rollback_versions()' in hb)}.")
    if not any(ast.unparse(s) == "txn = AtomicTransaction(conn, self)" for s in fn.body) or \
            not any(ast.unparse(s) == "conn = self._get_connection()" for s in fn.body):
        T._fail(rel, fn, "transaction() does not bind AtomicTransaction to the thread-local connection")
    out.append("")
    # ---- upsert_task
    rel = "persistence/sqlite/helpers.py"
    mod = T._parse(rel)
    fn = T._find_func(mod.body, "upsert_task", rel)
    ups = _sql_calls(fn, r"^\s*UPDATE\s+task_executions\b")
    if len(ups) != 1:
        T._fail(rel, fn, "upsert_task does not contain exactly one UPDATE task_executions")
    node, sql, pnode = ups[0]
    sets, where = _parse_update(rel, node, sql, "task_executions")
    params = _params(rel, node, pnode)
    for col, par in where.items():
        if col not in ("id", "version") or par != col:
            T._fail(rel, node, f"unexpected WHERE conjunct {col} = :{par} in upsert_task")
        if params.get(par) != f"task.{col}":
            T._fail(rel, node, f":{par} bound to {params.get(par)!r}, expected task.{col}")
    if sets.get("status") != ":status" or params.get("status") != "task.status.name":
        T._fail(rel, node, "upsert_task does not write the task status")
    out.append(f"Definition task_where_id : bool := {_b('id' in where)}.")
    out.append(f"Definition task_where_version : bool := {_b('version' in where)}.")
    out.append(f"Definition task_bumps_version : bool := {_b(_bump_of(rel, node, sets))}.")
    stm =[s for s in fn.body if not (isinstance(s, ast.Expr) and isinstance(s.value, ast.Constant))]
    if not (len(stm) in (1, 2) and isinstance(stm[0], ast.Assign) and stm[0].value is node):
        T._fail(rel, fn, "upsert_task is not `cursor = conn.execute(UPDATE …)` followed by at most one if")
    insert_fb = False
    integ = False
    local_bump = False
    ins_zero = False
    if len(stm) == 2:
        iff = stm[1]
        if not (isinstance(iff, ast.If) and _is_rowcount_zero(iff.test)):
            T._fail(rel, stm[1], "statement after the task UPDATE is not `if cursor.rowcount == 0:`")
        if [ast.unparse(s) for s in iff.orelse] == ["task.version += 1"]:
            local_bump = True
        elif iff.orelse:
            T._fail(rel, iff, "else branch of the task rowcount test is not `task.version += 1`")
        b = iff.body
        ins_holder = ast.Module(body=b, type_ignores=[])
        ins = _sql_calls(ins_holder, r"^\s*INSERT\s+INTO\s+task_executions\b")
        if len(ins) > 1 or len(b) != 1:
            T._fail(rel, iff, "rowcount==0 branch of upsert_task has an unexpected shape")
        if ins:
            insert_fb = True
            isql = ins[0][1]
            mv = re.search(r"VALUES \((.*)\)\s*$", isql, re.S)
            cols = re.search(r"\((.*?)\) VALUES", isql, re.S)
            if not mv or not cols:
                T._fail(rel, ins[0][0], "unparsable INSERT INTO task_executions")
            cl = [c.strip() for c in cols.group(1).split(",")]
            vl = [c.strip() for c in mv.group(1).split(",")]
            if len(cl) != len(vl) or "version" not in cl or "id" not in cl or "stage_id" not in cl or "status" not in cl:
                T._fail(rel, ins[0][0], "INSERT INTO task_executions column/value lists do not line up")
            v = vl[cl.index("version")]
            if v != "0":
                T._fail(rel, ins[0][0], f"inserted task version is {v!r}, expected literal 0")
            ins_zero = True
            ip = _params(rel, ins[0][0], ins[0][2])
            if (vl[cl.index("id")], vl[cl.index("stage_id")], vl[cl.index("status")]) != (":id", ":stage_id", ":status") or \
                    (ip.get("id"), ip.get("stage_id"), ip.get("status")) != ("task.id", "stage_id", "task.status.name"):
                T._fail(rel, ins[0][0], "INSERT INTO task_executions does not bind id/stage_id/status as expected")
            if isinstance(b[0], ast.Try):
                t = b[0]
                if len(t.handlers) != 1 or ast.unparse(t.handlers[0].type) != "sqlite3.IntegrityError" or t.orelse or t.finalbody:
                    T._fail(rel, t, "try around the task INSERT does not catch exactly sqlite3.IntegrityError")
                if not _raises_concurrency(t.handlers[0].body):
                    T._fail(rel, t, "IntegrityError handler does not raise ConcurrencyError")
                integ = True
            elif not (isinstance(b[0], ast.Expr) and b[0].value is ins[0][0]):
                T._fail(rel, b[0], "task INSERT is neither bare nor wrapped in try/except IntegrityError")
    out.append(f"Definition task_insert_when_nomatch : bool := {_b(insert_fb)}.")
    out.append(f"Definition task_insert_version_zero : bool := {_b(ins_zero)}.")
    out.append(f"Definition task_integrity_to_concurrency : bool := {_b(integ)}.")
    out.append(f"Definition task_local_version_bump : bool := {_b(local_bump)}.\n")
    # ---- _update_join_tracking retry count
    rel = "handlers/complete_stage/split_logic.py"
    mod = T._parse(rel)
    fn = T._find_func(T._find_class(mod, "CompleteStagesSplitMixin", rel).body, "_update_join_tracking", rel)
    tries_n = []
    fresh = []
    for n in ast.walk(fn):
        if isinstance(n, ast.Assign) and ast.unparse(n.targets[0]) == "max_retries":
            if not (isinstance(n.value, ast.Constant) and isinstance(n.value.value, int) and n.value.value >= 1):
                T._fail(rel, n, "max_retries is not a positive integer constant")
            tries_n.append(n.value.value)
        if isinstance(n, ast.For) and ast.unparse(n.iter) == "range(max_retries)":
            # body: try: re-read; modify; store(expected_phase=fresh.status.name); break / except ConcurrencyError: if last: raise
            if not (len(n.body) == 1 and isinstance(n.body[0], ast.Try)):
                T._fail(rel, n, "retry loop body is not a single try")
            t = n.body[0]
            first = ast.unparse(t.body[0]) if t.body else ""
            fresh.append(first == "fresh_downstream = self.repository.retrieve_stage(downstream.id)")
            if ast.unparse(t.body[-1]) != "break":
                T._fail(rel, t, "retry loop does not break after a successful store")
            if len(t.handlers) != 1 or ast.unparse(t.handlers[0].type) != "ConcurrencyError":
                T._fail(rel, t, "retry loop does not catch exactly ConcurrencyError")
            hb = [ast.unparse(s) for s in t.handlers[0].body]
            if hb != ["if attempt == max_retries - 1:\n    raise"]:
                T._fail(rel, t, f"retry loop handler is {hb}")
            stores = [c for c in ast.walk(t) if isinstance(c, ast.Call) and ast.unparse(c.func) == "self.repository.store_stage"]
            if len(stores) != 1 or ast.unparse(stores[0]) != \
                    "self.repository.store_stage(fresh_downstream, expected_phase=fresh_downstream.status.name)":
                T._fail(rel, t, "retry loop does not store the re-read stage with expected_phase = its status")
    if len(tries_n) != 2 or len(set(tries_n)) != 1 or len(fresh) != 2:
        T._fail(rel, fn, "_update_join_tracking does not have two identical bounded retry loops")
    out.append(f"Definition join_tracking_max_tries : Z := {tries_n[0]}%Z.")
    out.append(f"Definition join_tracking_rereads : bool := {_b(all(fresh))}.")
    # ---- retry_on_concurrency_error: max_retries from config, retries only ConcurrencyError, re-raises it
    rel = "handlers/base.py"
    mod = T._parse(rel)
    fn = T._find_func(T._find_class(mod, "StabilizeHandler", rel).body, "retry_on_concurrency_error", rel)
    src = "\n".join(ln.strip() for ln in ast.unparse(fn).splitlines())
    need = [
        "max_retries = self.handler_config.concurrency_max_retries",
        "if max_retries == 0:\nfunc()\nreturn",
        "retry_policy = RetryWithBackoffPolicy(max_retries=max_retries, backoff=concurrency_backoff, "
        "should_handle=lambda e: isinstance(e, ConcurrencyError))",
        "@retry_policy\ndef with_retry() -> None:\nfunc()",
        "except RetryLimitReached as e:",
    ]
    for frag in need:
        if frag not in src:
            T._fail(rel, fn, f"retry_on_concurrency_error lost the fragment {frag.splitlines()[0]!r}")
    raises = sorted((n for n in ast.walk(fn) if isinstance(n, ast.Raise)), key=lambda n: n.lineno)
    if len(raises) != 2 or "ConcurrencyError" not in ast.unparse(raises[1]) or ast.unparse(raises[0]) != "raise e.__cause__ from e":
        T._fail(rel, fn, "retry_on_concurrency_error does not end by raising ConcurrencyError")
    out.append("Definition retry_reruns_whole_body : bool := true.   (* func() is called again, nothing is cached *)")
    out.append("Definition retry_exhausted_raises_concurrency : bool := true.")
    return "\n".join(out) + "\n"


EMITTERS = {"Gen_Occ.v": gen_occ}
