"""Translator emitter for C08: queue/sqlite/queue.py, queue/sqlite/dlq.py, queue/sqlite/schema.py,
persistence/sqlite/transaction.py:push_message, queue/messages.py, queue/processor/{processor,config}.py
->  coq/gen/Gen_Queue.v

What is taken from the source (each in a fixed, checked shape; anything else -> TranslateError):
  * defaults: lock_duration, schema column defaults, Message.max_attempts, retry_delay;
  * poll_one's SELECT: the three comparison operators of its WHERE clause, whether the attempt limit is the
    queue's (:max_attempts bound to self.max_attempts) and whether SQL time is datetime('now','utc');
  * poll_one's claim UPDATE: increments, whether it is a CAS on version;
  * check_and_move_expired's predicate;
  * the statement/commit programs of move_to_dlq and replay_dlq (so an extra commit between DELETE and INSERT
    regenerates a different program and the crash-cut theorem is re-checked against it);
  * ack / reschedule / extend_lock / push statements, compared as normalised text (fail-closed);
  * the processor's ack-after-handler / reschedule-on-exception shape of process_one and process_and_ack.
"""
from __future__ import annotations

import ast
import re

from harness import translate as T
from harness.translate import TranslateError

Q = "queue/sqlite/queue.py"
D = "queue/sqlite/dlq.py"
S = "queue/sqlite/schema.py"
X = "persistence/sqlite/transaction.py"
P = "queue/processor/processor.py"

OPS = {"<=": "Z.leb a b", "<": "Z.ltb a b", ">=": "Z.leb b a", ">": "Z.ltb b a", "=": "Z.eqb a b",
       "==": "Z.eqb a b", "!=": "negb (Z.eqb a b)", "<>": "negb (Z.eqb a b)"}


def _norm(s: str) -> str:
    return re.sub(r"\s+", " ", s).strip()


def _sql_of(node: ast.expr, rel: str) -> str:
    """f-string / constant -> text, with {self.table_name} -> {T}"""
    if isinstance(node, ast.Constant) and isinstance(node.value, str):
        return _norm(node.value)
    if isinstance(node, ast.JoinedStr):
        out = []
        for v in node.values:
            if isinstance(v, ast.Constant):
                out.append(v.value)
            elif isinstance(v, ast.FormattedValue) and ast.unparse(v.value) in ("self.table_name", "table_name"):
                out.append("{T}")
            else:
                T._fail(rel, v, "unexpected interpolation in SQL text: " + ast.unparse(v))
        return _norm("".join(out))
    if isinstance(node, ast.Name):
        return "<var:%s>" % node.id
    T._fail(rel, node, "SQL text is not a (f-)string literal")


def _method(rel: str, cls: str, fn: str) -> ast.FunctionDef:
    mod = T._parse(rel)
    return T._find_func(T._find_class(mod, cls, rel).body, fn, rel)


def _events(f: ast.FunctionDef, rel: str) -> list[tuple]:
    """source-ordered list of ('exec', sql, params-node) / ('commit',) / ('rollback',) / ('return',) /
    ('call', name) for self.<name>(...) calls, walking statements in order (bodies of if/for/try inline)."""
    ev: list[tuple] = []

    def expr(e):
        for n in ast.walk(e):
            if isinstance(n, ast.Call) and isinstance(n.func, ast.Attribute):
                a = n.func.attr
                base = ast.unparse(n.func.value)
                if a == "execute" and base in ("conn", "self._conn"):
                    ev.append(("exec", _sql_of(n.args[0], rel), n.args[1] if len(n.args) > 1 else None, n.lineno))
                elif a == "commit" and base in ("conn", "self._conn"):
                    ev.append(("commit", n.lineno))
                elif a == "rollback" and base in ("conn", "self._conn"):
                    ev.append(("rollback", n.lineno))
                elif (base == "self" or base.startswith("self.queue")) and a != "_get_connection":
                    ev.append(("call", a, n.lineno))

    def stmts(body):
        for s in body:
            if isinstance(s, ast.Return):
                if s.value is not None:
                    expr(s.value)
                ev.append(("return", s.lineno))
            elif isinstance(s, ast.If):
                expr(s.test)
                ev.append(("if", s.lineno))
                stmts(s.body)
                ev.append(("else", s.lineno))
                stmts(s.orelse)
                ev.append(("endif", s.lineno))
            elif isinstance(s, (ast.For, ast.While)):
                ev.append(("loop", s.lineno))
                stmts(s.body)
                ev.append(("endloop", s.lineno))
            elif isinstance(s, ast.Try):
                ev.append(("try", s.lineno))
                stmts(s.body)
                for h in s.handlers:
                    ev.append(("except", ast.unparse(h.type) if h.type else "", s.lineno))
                    stmts(h.body)
                ev.append(("finally", s.lineno))
                stmts(s.finalbody)
                ev.append(("endtry", s.lineno))
            elif isinstance(s, ast.With):
                stmts(s.body)
            elif isinstance(s, (ast.FunctionDef, ast.ClassDef)):
                continue
            else:
                expr(s)
    stmts(f.body)
    return ev


def _dict_of(node, rel) -> dict[str, str]:
    if not isinstance(node, ast.Dict):
        T._fail(rel, node, "SQL parameters are not a dict literal")
    return {k.value: ast.unparse(v) for k, v in zip(node.keys, node.values)}


def _timedelta_ms(node: ast.expr, rel: str) -> int:
    if not (isinstance(node, ast.Call) and ast.unparse(node.func) == "timedelta" and not node.args):
        T._fail(rel, node, "expected timedelta(<unit>=<const>)")
    mult = {"seconds": 1000, "minutes": 60000, "milliseconds": 1, "hours": 3600000}
    tot = 0
    for kw in node.keywords:
        if kw.arg not in mult or not isinstance(kw.value, ast.Constant) or not isinstance(kw.value.value, (int, float)):
            T._fail(rel, node, "timedelta with an unexpected keyword/value")
        tot += kw.value.value * mult[kw.arg]
    if tot != int(tot) or tot < 0:
        T._fail(rel, node, "timedelta is not a whole number of milliseconds")
    return int(tot)


def _schema_defaults() -> dict[str, int]:
    mod = T._parse(S)
    f = T._find_func(mod.body, "create_queue_tables", S)
    texts = [_sql_of(n.args[0], S) for n in ast.walk(f)
             if isinstance(n, ast.Call) and isinstance(n.func, ast.Attribute) and n.func.attr == "execute"]
    main = [t for t in texts if t.startswith("CREATE TABLE IF NOT EXISTS {T} (")]
    dlq = [t for t in texts if t.startswith("CREATE TABLE IF NOT EXISTS {T}_dlq (")]
    if len(main) != 1 or len(dlq) != 1:
        raise TranslateError(f"{S}: expected exactly one CREATE TABLE for the queue and one for the DLQ")
    out = {}
    for col in ("attempts", "max_attempts", "version"):
        m = re.search(r"\b%s INTEGER DEFAULT (\d+)\b" % col, main[0])
        if not m:
            raise TranslateError(f"{S}: column {col} INTEGER DEFAULT <n> not found in the queue table")
        out[col] = int(m.group(1))
    if "id INTEGER PRIMARY KEY AUTOINCREMENT" not in main[0] or "id INTEGER PRIMARY KEY AUTOINCREMENT" not in dlq[0]:
        raise TranslateError(f"{S}: ids are no longer INTEGER PRIMARY KEY AUTOINCREMENT (ids could be reused)")
    if "locked_until TEXT," not in main[0]:
        raise TranslateError(f"{S}: locked_until is no longer a nullable TEXT column without default")
    return out


POLL_SELECT = re.compile(
    r"^SELECT id, message_type, payload, attempts, version FROM \{T\} "
    r"WHERE datetime\(deliver_at\) (?P<op1><=|<|>=|>|=|!=|<>) datetime\('now'(?P<u1>, 'utc')?\) "
    r"AND \(locked_until IS NULL OR datetime\(locked_until\) (?P<op2><=|<|>=|>|=|!=|<>) datetime\('now'(?P<u2>, 'utc')?\)\) "
    r"AND attempts (?P<op3><=|<|>=|>|=|!=|<>) (?P<lim>:max_attempts|max_attempts) "
    r"ORDER BY deliver_at LIMIT 1$")
POLL_SELECT_NOLIMIT = re.compile(
    r"^SELECT id, message_type, payload, attempts, version FROM \{T\} "
    r"WHERE datetime\(deliver_at\) (?P<op1><=|<|>=|>|=|!=|<>) datetime\('now'(?P<u1>, 'utc')?\) "
    r"AND \(locked_until IS NULL OR datetime\(locked_until\) (?P<op2><=|<|>=|>|=|!=|<>) datetime\('now'(?P<u2>, 'utc')?\)\) "
    r"ORDER BY deliver_at LIMIT 1$")
CLAIM = re.compile(
    r"^UPDATE \{T\} SET locked_until = :locked_until, attempts = attempts \+ (?P<ai>\d+), "
    r"version = version \+ (?P<vi>\d+) WHERE id = :id(?P<cas> AND version = :version)?$")
SWEEP = re.compile(r"^SELECT id, message_type, attempts FROM \{T\} WHERE (?P<pred>.+)$")
SWEEP_PREDS = {
    # text -> Coq body over (att rowmax qmax)
    "attempts >= max_attempts": "Z.leb rowmax att",
    "attempts > max_attempts": "Z.ltb rowmax att",
    "attempts >= MIN(max_attempts, :queue_max_attempts)": "Z.leb (Z.min rowmax qmax) att",
    "attempts >= max_attempts OR attempts >= :queue_max_attempts": "Z.leb rowmax att || Z.leb qmax att",
    "attempts >= :queue_max_attempts": "Z.leb qmax att",
}


def gen_queue() -> str:
    out = [T.HEADER.format(src=", ".join([Q, D, S, X, P, "queue/messages.py", "queue/processor/config.py"]))]
    out.append("Open Scope Z_scope.\n")

    # ---- defaults --------------------------------------------------------------------------
    init = _method(Q, "SqliteQueue", "__init__")
    names = [a.arg for a in init.args.args]
    defs = dict(zip(names[len(names) - len(init.args.defaults):], init.args.defaults))
    if "lock_duration" not in defs or "max_attempts" not in defs:
        T._fail(Q, init, "SqliteQueue.__init__ lost its lock_duration / max_attempts defaults")
    out.append(f"Definition lock_duration_default_ms : Z := {_timedelta_ms(defs['lock_duration'], Q)}.")
    want = {"self.lock_duration": "lock_duration", "self.max_attempts": "max_attempts", "self.table_name": "table_name"}
    got = {ast.unparse(s.targets[0]): ast.unparse(s.value) for s in init.body
           if isinstance(s, ast.Assign) and isinstance(s.value, ast.Name)}
    for k, v in want.items():
        if got.get(k) != v:
            T._fail(Q, init, f"__init__ does not store {v} in {k}")
    sd = _schema_defaults()
    out.append(f"Definition schema_default_attempts : Z := {sd['attempts']}.")
    out.append(f"Definition schema_default_max_attempts : Z := {sd['max_attempts']}.")
    out.append(f"Definition schema_default_version : Z := {sd['version']}.")
    mdef = T._dataclass_default("queue/messages.py", "Message", "max_attempts") if False else None
    # Message.max_attempts: field(default=10, repr=False)
    mmod = T._parse("queue/messages.py")
    mcls = T._find_class(mmod, "Message", "queue/messages.py")
    for n in mcls.body:
        if isinstance(n, ast.AnnAssign) and isinstance(n.target, ast.Name) and n.target.id == "max_attempts":
            v = n.value
            if isinstance(v, ast.Call) and ast.unparse(v.func) == "field":
                kw = {k.arg: k.value for k in v.keywords}
                v = kw.get("default")
            if not (isinstance(v, ast.Constant) and isinstance(v.value, int)):
                T._fail("queue/messages.py", n, "Message.max_attempts default is not an int constant")
            mdef = v.value
    if mdef is None:
        raise TranslateError("queue/messages.py: Message.max_attempts not found")
    out.append(f"Definition message_default_max_attempts : Z := {mdef}.")
    cmod = T._parse("queue/processor/config.py")
    ccls = T._find_class(cmod, "QueueProcessorConfig", "queue/processor/config.py")
    rd = None
    for n in ccls.body:
        if isinstance(n, ast.AnnAssign) and isinstance(n.target, ast.Name) and n.target.id == "retry_delay":
            rd = _timedelta_ms(n.value, "queue/processor/config.py")
    if rd is None:
        raise TranslateError("queue/processor/config.py: retry_delay default not found")
    out.append(f"Definition retry_delay_default_ms : Z := {rd}.\n")

    # ---- push ------------------------------------------------------------------------------
    ev = _events(_method(Q, "SqliteQueue", "push"), Q)
    ex = [e for e in ev if e[0] == "exec"]
    if len(ex) != 1 or ex[0][1] != ("INSERT INTO {T} (message_id, message_type, payload, deliver_at, attempts, max_attempts) "
                                     "VALUES (:message_id, :type, :payload, :deliver_at, 0, :max_attempts)"):
        T._fail(Q, _method(Q, "SqliteQueue", "push"), "push: unexpected INSERT text: " + (ex[0][1] if ex else "none"))
    pr = _dict_of(ex[0][2], Q)
    if pr.get("max_attempts") != "self.max_attempts" or pr.get("deliver_at") != "deliver_at.isoformat()" \
            or pr.get("payload") != "payload" or pr.get("type") != "message_type":
        T._fail(Q, _method(Q, "SqliteQueue", "push"), "push: unexpected parameter binding")
    kinds = [e[0] for e in ev if e[0] in ("exec", "commit", "if", "endif", "else")]
    src = ast.unparse(_method(Q, "SqliteQueue", "push"))
    if "deliver_at = datetime.now(UTC)" not in src or "if delay:\n        deliver_at += delay" not in src \
            or "if not external_connection:\n        conn.commit()" not in src:
        T._fail(Q, _method(Q, "SqliteQueue", "push"), "push: deliver_at / commit logic changed shape")
    out.append("(* push: INSERT attempts=0, max_attempts=self.max_attempts, deliver_at = now (+ delay if delay), commit *)")
    out.append("Definition push_attempts : Z := 0.")
    # in-transaction push
    tf = _method(X, "AtomicTransaction", "push_message")
    ev = _events(tf, X)
    ex = [e for e in ev if e[0] == "exec"]
    want_tx = ("INSERT INTO queue_messages ( message_id, message_type, payload, deliver_at, attempts, max_attempts, version ) "
               "VALUES ( :message_id, :message_type, :payload, :deliver_at, 0, :max_attempts, 0 )")
    if len(ex) != 1 or ex[0][1] != want_tx or any(e[0] == "commit" for e in ev):
        T._fail(X, tf, "push_message: unexpected INSERT text or a commit inside: " + (ex[0][1] if ex else "none"))
    pr = _dict_of(ex[0][2], X)
    m = re.fullmatch(r"getattr\(message, 'max_attempts', (\d+)\)", pr.get("max_attempts", ""))
    if not m or pr.get("deliver_at") != "deliver_at.isoformat()" or pr.get("payload") != "payload":
        T._fail(X, tf, "push_message: unexpected parameter binding")
    src = ast.unparse(tf)
    if "deliver_at = datetime.now(UTC)\n    if delay > 0:\n        deliver_at = deliver_at + timedelta(seconds=delay)" not in src:
        T._fail(X, tf, "push_message: deliver_at logic changed shape")
    out.append("(* txn.push_message: attempts=0, version=0, max_attempts=getattr(message,'max_attempts',N), delay applied only if > 0, no commit *)")
    out.append("Definition txpush_attempts : Z := 0.\nDefinition txpush_version : Z := 0.")
    out.append(f"Definition txpush_fallback_max_attempts : Z := {m.group(1)}.\n")

    # ---- poll_one --------------------------------------------------------------------------
    pf = _method(Q, "SqliteQueue", "poll_one")
    ev = _events(pf, Q)
    seq = [e[0] if e[0] != "call" else "call:" + e[1] for e in ev]
    want_seq = ["exec", "if", "return", "else", "endif", "exec", "commit", "if", "return", "else", "endif",
                "if", "call:move_to_dlq", "return", "else", "endif", "return"]
    if seq != want_seq:
        T._fail(Q, pf, "poll_one: statement/commit/return skeleton changed: " + " ".join(seq))
    sel, upd = [e for e in ev if e[0] == "exec"]
    ms = POLL_SELECT.match(sel[1])
    nolimit = False
    if not ms:
        ms = POLL_SELECT_NOLIMIT.match(sel[1])
        nolimit = True
    if not ms:
        T._fail(Q, pf, "poll_one: SELECT text not recognised: " + sel[1])
    if (ms.group("u1") is None) != (ms.group("u2") is None):
        T._fail(Q, pf, "poll_one: the two datetime('now'…) calls differ")
    if not nolimit and ms.group("lim") == ":max_attempts":
        if _dict_of(sel[2], Q).get("max_attempts") != "self.max_attempts":
            T._fail(Q, pf, "poll_one: :max_attempts is not bound to self.max_attempts")
    src = ast.unparse(pf)
    if "locked_until = datetime.now(UTC) + self.lock_duration" not in src:
        T._fail(Q, pf, "poll_one: locked_until is no longer now + self.lock_duration")
    if "if cursor.rowcount == 0:\n        logger.debug('Lost race for message %s, will retry', msg_id)\n        return None" not in src:
        T._fail(Q, pf, "poll_one: lost-race test (rowcount == 0 -> None) changed")
    if "message.attempts = attempts + 1" not in src or "message.message_id = str(msg_id)" not in src:
        T._fail(Q, pf, "poll_one: returned message no longer carries str(id) / attempts+1")
    if "if message is None:" not in src:
        T._fail(Q, pf, "poll_one: corrupted-payload test changed")
    out.append("(* poll_one SELECT: WHERE datetime(deliver_at) OP1 NOW AND (locked_until IS NULL OR datetime(locked_until) OP2 NOW) "
               "AND attempts OP3 LIMIT ORDER BY deliver_at LIMIT 1 *)")
    out.append(f"Definition poll_deliver_cmp (a b : Z) : bool := {OPS[ms.group('op1')]}.")
    out.append(f"Definition poll_lock_cmp (a b : Z) : bool := {OPS[ms.group('op2')]}.")
    if nolimit:
        out.append("Definition poll_att_cmp (a b : Z) : bool := true.")
        out.append("Definition poll_limit_is_queue : bool := true.")
    else:
        out.append(f"Definition poll_att_cmp (a b : Z) : bool := {OPS[ms.group('op3')]}.")
        out.append(f"Definition poll_limit_is_queue : bool := {'true' if ms.group('lim') == ':max_attempts' else 'false'}.")
    out.append(f"Definition now_utc_modifier : bool := {'true' if ms.group('u1') else 'false'}.")
    mc = CLAIM.match(upd[1])
    if not mc:
        T._fail(Q, pf, "poll_one: claim UPDATE text not recognised: " + upd[1])
    pr = _dict_of(upd[2], Q)
    if pr.get("id") != "msg_id" or pr.get("locked_until") != "locked_until.isoformat()" or \
            (mc.group("cas") and pr.get("version") != "version"):
        T._fail(Q, pf, "poll_one: claim UPDATE parameter binding changed")
    out.append("(* claim: UPDATE SET locked_until, attempts = attempts + A, version = version + V WHERE id = :id [AND version = :version]; commit *)")
    out.append(f"Definition claim_att_inc : Z := {mc.group('ai')}.")
    out.append(f"Definition claim_ver_inc : Z := {mc.group('vi')}.")
    out.append(f"Definition claim_checks_version : bool := {'true' if mc.group('cas') else 'false'}.\n")

    # ---- ack / reschedule / extend_lock ------------------------------------------------------
    for fn, sql, binds in (
        ("ack", "DELETE FROM {T} WHERE id = :id", {"id": "msg_id"}),
        ("reschedule", "UPDATE {T} SET deliver_at = :deliver_at, locked_until = NULL WHERE id = :id",
         {"id": "msg_id", "deliver_at": "deliver_at.isoformat()"}),
        ("extend_lock", "UPDATE {T} SET locked_until = :locked_until WHERE id = :id",
         {"locked_until": "locked_until.isoformat()", "id": "msg_id"}),
    ):
        f = _method(Q, "SqliteQueue", fn)
        ev = _events(f, Q)
        ex = [e for e in ev if e[0] == "exec"]
        cm = [e for e in ev if e[0] == "commit"]
        if len(ex) != 1 or ex[0][1] != sql or len(cm) != 1 or cm[0][-1] < ex[0][-1] or _dict_of(ex[0][2], Q) != binds:
            T._fail(Q, f, f"{fn}: statement changed: " + (ex[0][1] if ex else "none"))
    src = ast.unparse(_method(Q, "SqliteQueue", "reschedule"))
    if "deliver_at = datetime.now(UTC) + delay" not in src:
        T._fail(Q, _method(Q, "SqliteQueue", "reschedule"), "reschedule: deliver_at is no longer now + delay")
    src = ast.unparse(_method(Q, "SqliteQueue", "extend_lock"))
    if "locked_until = datetime.now(UTC) + (duration or self.lock_duration)" not in src or "return cursor.rowcount == 1" not in src:
        T._fail(Q, _method(Q, "SqliteQueue", "extend_lock"), "extend_lock: changed shape")
    out.append("(* ack = DELETE WHERE id; reschedule = SET deliver_at = now+delay, locked_until = NULL WHERE id; "
               "extend_lock = SET locked_until = now + (duration or lock_duration) WHERE id -- each one commit; checked as text *)\n")

    # ---- DLQ -------------------------------------------------------------------------------
    out.append("Inductive qstmt : Type := QDelRet | QInsDlq | QDelDlqRet | QInsQueue | QCommit.")
    mv = _method(D, "SqliteDLQMixin", "move_to_dlq")
    ev = _events(mv, D)
    prog = []
    for e in ev:
        if e[0] == "exec":
            if e[1] == "DELETE FROM {T} WHERE id = :id RETURNING id, message_id, message_type, payload, attempts, created_at":
                prog.append("QDelRet")
            elif e[1].startswith("INSERT INTO {T}_dlq ( original_id, message_id, message_type, payload, attempts, error, last_error_at, created_at ) VALUES ("):
                pr = _dict_of(e[2], D)
                if pr.get("payload") != "row['payload']" or pr.get("message_type") != "row['message_type']" \
                        or pr.get("attempts") != "row['attempts']" or pr.get("original_id") != "row['id']":
                    T._fail(D, mv, "move_to_dlq: DLQ INSERT no longer copies id/type/payload/attempts of the deleted row")
                prog.append("QInsDlq")
            else:
                T._fail(D, mv, "move_to_dlq: unexpected statement: " + e[1])
        elif e[0] == "commit":
            prog.append("QCommit")
    seq = [e[0] for e in ev if e[0] in ("exec", "commit", "if", "return", "else", "endif", "rollback")]
    # (a rollback before the not-found return is accepted: it ends the transaction the DELETE opened, changes nothing)
    if seq not in (["exec", "if", "return", "else", "endif", "exec", "commit"],
                   ["exec", "if", "rollback", "return", "else", "endif", "exec", "commit"]):
        T._fail(D, mv, "move_to_dlq: control skeleton changed: " + " ".join(seq))
    out.append("Definition move_to_dlq_prog : list qstmt := [" + "; ".join(prog) + "].")
    rp = _method(D, "SqliteDLQMixin", "replay_dlq")
    ev = _events(rp, D)
    prog = []
    replay_utc = None
    for e in ev:
        if e[0] == "exec":
            if e[1] == "DELETE FROM {T}_dlq WHERE id = :id RETURNING *":
                prog.append("QDelDlqRet")
            else:
                mm = re.fullmatch(r"INSERT INTO \{T\} \( message_id, message_type, payload, deliver_at, attempts \) VALUES "
                                  r"\( :message_id, :message_type, :payload, datetime\('now'(, 'utc')?\), (\d+) \)", e[1])
                if not mm:
                    T._fail(D, rp, "replay_dlq: unexpected statement: " + e[1])
                pr = _dict_of(e[2], D)
                if pr.get("payload") != "row['payload']" or pr.get("message_type") != "row['message_type']":
                    T._fail(D, rp, "replay_dlq: re-insert no longer copies type/payload of the DLQ row")
                replay_utc = mm.group(1) is not None
                replay_att = int(mm.group(2))
                prog.append("QInsQueue")
        elif e[0] == "commit":
            prog.append("QCommit")
    seq = [e[0] for e in ev if e[0] in ("exec", "commit", "if", "return", "else", "endif", "rollback")]
    if seq not in (["exec", "if", "return", "else", "endif", "exec", "commit", "return"],
                   ["exec", "if", "rollback", "return", "else", "endif", "exec", "commit", "return"]) or replay_utc is None:
        T._fail(D, rp, "replay_dlq: control skeleton changed: " + " ".join(seq))
    out.append("Definition replay_dlq_prog : list qstmt := [" + "; ".join(prog) + "].")
    out.append(f"Definition replay_attempts : Z := {replay_att}.")
    out.append(f"Definition replay_now_utc_modifier : bool := {'true' if replay_utc else 'false'}.")
    out.append("(* replay's INSERT names no max_attempts / version column: the schema defaults apply *)")
    sw = _method(D, "SqliteDLQMixin", "check_and_move_expired")
    ev = _events(sw, D)
    ex = [e for e in ev if e[0] == "exec"]
    seq = [e[0] if e[0] != "call" else "call:" + e[1] for e in ev if e[0] in ("exec", "commit", "loop", "endloop", "call", "return")]
    if len(ex) != 1 or seq != ["exec", "loop", "call:move_to_dlq", "endloop", "return"]:
        T._fail(D, sw, "check_and_move_expired: skeleton changed: " + " ".join(seq))
    msw = SWEEP.match(ex[0][1])
    if not msw or msw.group("pred") not in SWEEP_PREDS:
        T._fail(D, sw, "check_and_move_expired: predicate not recognised: " + ex[0][1])
    if ":queue_max_attempts" in msw.group("pred"):
        b = _dict_of(ex[0][2], D) if ex[0][2] is not None else {}
        if b.get("queue_max_attempts") not in ("self.max_attempts", "getattr(self, 'max_attempts', 10)"):
            T._fail(D, sw, "check_and_move_expired: :queue_max_attempts is not bound to the queue's max_attempts")
    if "self.move_to_dlq(row['id']," not in ast.unparse(sw):
        T._fail(D, sw, "check_and_move_expired: no longer moves row['id']")
    out.append(f"Definition sweep_pred (att rowmax qmax : Z) : bool := {SWEEP_PREDS[msw.group('pred')]}.\n")

    # ---- processor: ack only after the handler returned, reschedule on exception ----------------
    pm = T._parse(P)
    pc = T._find_class(pm, "QueueProcessor", P)
    po = T._find_func(pc.body, "process_one", P)
    src = ast.unparse(po)
    want_po = ("message = self.queue.poll_one()\n    if message:\n        try:\n            self._handle_message(message)\n"
               "            self.queue.ack(message)\n            return True\n        except Exception as e:\n")
    if want_po not in src or "self.queue.reschedule(message, self.config.retry_delay)\n            raise\n    return False" not in src:
        T._fail(P, po, "process_one: poll / handle / ack / except-reschedule-raise shape changed")
    si = T._find_func(pc.body, "_submit_message_internal", P)
    src = ast.unparse(si)
    if "try:\n            self._handle_message(message)\n            self.queue.ack(message)\n        except Exception as e:" not in src \
            or "self.queue.reschedule(message, self.config.retry_delay)\n        finally:" not in src:
        T._fail(P, si, "_submit_message_internal: handle / ack / except-reschedule shape changed")
    out.append("(* processor: _handle_message(m); queue.ack(m)  |  except Exception: queue.reschedule(m, config.retry_delay) -- checked as text *)")
    out.append("Definition proc_acks_after_handler : bool := true.")
    from harness.translate import processor_failure_path
    out.append(processor_failure_path())
    return "\n".join(out) + "\n"


EMITTERS = {"Gen_Queue.v": gen_queue}
