"""Emitter Gen_Retry.v (C14): the pieces of the RunTask retry round trip that are not already in
Gen_Guards / Gen_Queue / Gen_Messages, each taken from the AST in a fixed shape (fail-closed):

  handlers/run_task/error.py   _handle_transient_retry: `next_attempt = current_attempts + 1`,
                               `retry_message = message.copy_with_attempts(next_attempt)`, every
                               execute_atomic call pushes `retry_message`, and the context_update branch stores
                               `fresh_stage` in the SAME execute_atomic call as the retry message
  queue/messages.py            Message.copy_with_attempts sets `new_msg.attempts = attempts`; default of attempts
  queue/sqlite/queue.py        poll_one: `attempts = row['attempts']` ... `message.attempts = attempts + 1`
  handlers/run_task/result.py  _handle_running: execute_atomic(stage=stage, messages_to_push=[(message, ...)])
                               without source_message (the RUNNING re-push is not a processed mark)
"""
from __future__ import annotations

import ast

from harness.translate import HEADER, TranslateError, _fail, _find_class, _find_func, _parse
from harness.tr.guards import Tr

E = "handlers/run_task/error.py"
R = "handlers/run_task/result.py"
M = "queue/messages.py"
Q = "queue/sqlite/queue.py"


def _assigns(fn: ast.FunctionDef, target: str) -> list[ast.expr]:
    out = []
    for n in ast.walk(fn):
        if isinstance(n, ast.Assign) and len(n.targets) == 1 and ast.unparse(n.targets[0]) == target:
            out.append(n.value)
    return out


def _calls(fn: ast.AST, name: str) -> list[ast.Call]:
    cs = [n for n in ast.walk(fn) if isinstance(n, ast.Call) and ast.unparse(n.func) == name]
    cs.sort(key=lambda n: (n.lineno, n.col_offset))
    return cs


def _kw(call: ast.Call) -> dict:
    return {k.arg: k.value for k in call.keywords}


def gen_retry() -> str:
    out = [HEADER.format(src=f"{E}, {R}, {M}, {Q}")]
    out.append("Local Open Scope Z_scope.\n")

    # ---- _handle_transient_retry
    f = _find_func(_parse(E).body, "_handle_transient_retry", E)
    na = _assigns(f, "next_attempt")
    if len(na) != 1:
        _fail(E, f, "next_attempt is not assigned exactly once in _handle_transient_retry")
    t = Tr(E, {"current_attempts": ("cur", "Z")}).term(na[0])
    out.append(f"(* {E}:{na[0].lineno} `next_attempt = {ast.unparse(na[0])}` *)")
    out.append(f"Definition retry_next_attempt (cur : Z) : Z := {t}.\n")
    rm = _assigns(f, "retry_message")
    if [ast.unparse(x) for x in rm] != ["message.copy_with_attempts(next_attempt)"]:
        _fail(E, f, "retry_message is not `message.copy_with_attempts(next_attempt)`: %s" % [ast.unparse(x) for x in rm])
    calls = _calls(f, "txn_helper.execute_atomic")
    if len(calls) != 3:
        _fail(E, f, f"_handle_transient_retry has {len(calls)} execute_atomic calls, expected 3")
    with_stage = 0
    for c in calls:
        kw = _kw(c)
        mp = kw.get("messages_to_push")
        if mp is None or not (isinstance(mp, ast.List) and len(mp.elts) == 1 and isinstance(mp.elts[0], ast.Tuple)
                              and ast.unparse(mp.elts[0].elts[0]) == "retry_message"):
            _fail(E, c, "an execute_atomic call of _handle_transient_retry does not push exactly [(retry_message, delay)]")
        if "source_message" in kw:
            _fail(E, c, "the retry path now marks the source message processed")
        if "stage" in kw:
            if ast.unparse(kw["stage"]) != "fresh_stage":
                _fail(E, c, "retry stores a stage other than fresh_stage")
            with_stage += 1
    if with_stage != 1:
        _fail(E, f, "expected exactly one execute_atomic(stage=fresh_stage, messages_to_push=[retry]) in the context_update branch")
    upd = [n for n in ast.walk(f) if isinstance(n, ast.Call) and ast.unparse(n.func) == "fresh_stage.context.update"]
    if len(upd) != 1 or [ast.unparse(a) for a in upd[0].args] != ["context_update"]:
        _fail(E, f, "context_update is no longer merged by fresh_stage.context.update(context_update)")
    if upd[0].lineno > [c for c in calls if "stage" in _kw(c)][0].lineno:
        _fail(E, upd[0], "context merge happens after the atomic store")
    out.append("(* the context_update branch: fresh_stage.context.update(context_update) then ONE execute_atomic(stage=fresh_stage,")
    out.append("   messages_to_push=[(retry_message, delay)]); no source_message (the retry is not a processed mark) *)")
    out.append("Definition transient_ctx_same_txn : bool := true.")
    out.append("Definition retry_marks_source : bool := false.\n")

    # ---- copy_with_attempts
    mc = _find_class(_parse(M), "Message", M)
    cw = _find_func(mc.body, "copy_with_attempts", M)
    # `<copy> = copy.copy(self); <copy>.attempts = attempts; return <copy>` - whatever the local is called
    cname = next((ast.unparse(x.targets[0]) for x in ast.walk(cw) if isinstance(x, ast.Assign) and len(x.targets) == 1
                  and isinstance(x.targets[0], ast.Name) and ast.unparse(x.value) == "copy.copy(self)"), None)
    sets = _assigns(cw, f"{cname}.attempts") if cname else []
    if [ast.unparse(x) for x in sets] != ["attempts"] or ast.unparse(cw.body[-1]) != f"return {cname}":
        _fail(M, cw, "copy_with_attempts no longer sets new_msg.attempts = attempts")
    dflt = None
    for s in mc.body:
        if isinstance(s, ast.AnnAssign) and isinstance(s.target, ast.Name) and s.target.id == "attempts":
            kw = {k.arg: k.value for k in s.value.keywords} if isinstance(s.value, ast.Call) else {}
            if "default" in kw and isinstance(kw["default"], ast.Constant) and isinstance(kw["default"].value, int):
                dflt = kw["default"].value
    if dflt is None:
        raise TranslateError(f"{M}: Message.attempts has no integer default")
    out.append(f"(* {M}: Message.attempts default (what a deserialised message carries once the payload entry is popped) *)")
    out.append(f"Definition message_default_attempts : Z := {dflt}.\n")

    # ---- poll_one
    qc = _find_class(_parse(Q), "SqliteQueue", Q)
    po = _find_func(qc.body, "poll_one", Q)
    ra = _assigns(po, "attempts")
    if [ast.unparse(x) for x in ra] != ["row['attempts']"]:
        _fail(Q, po, "poll_one: `attempts` is not row['attempts']: %s" % [ast.unparse(x) for x in ra])
    ma = _assigns(po, "message.attempts")
    if len(ma) != 1:
        _fail(Q, po, "poll_one assigns message.attempts %d times" % len(ma))
    t = Tr(Q, {"attempts": ("row", "Z"), "message.attempts": ("carried", "Z")}).term(ma[0])
    out.append(f"(* {Q}:{ma[0].lineno} `message.attempts = {ast.unparse(ma[0])}` (attempts = the row's column before the claim) *)")
    out.append(f"Definition poll_seen_attempts (row carried : Z) : Z := {t}.\n")

    # ---- _handle_running
    hr = _find_func(_parse(R).body, "_handle_running", R)
    calls = _calls(hr, "txn_helper.execute_atomic")
    if len(calls) != 1:
        _fail(R, hr, "_handle_running: expected one execute_atomic call")
    kw = _kw(calls[0])
    mp = kw.get("messages_to_push")
    if ast.unparse(kw.get("stage", ast.Constant(None))) != "stage" or "source_message" in kw or not (
            isinstance(mp, ast.List) and len(mp.elts) == 1 and isinstance(mp.elts[0], ast.Tuple)
            and ast.unparse(mp.elts[0].elts[0]) == "message"):
        _fail(R, calls[0], "_handle_running is no longer execute_atomic(stage=stage, messages_to_push=[(message, delay)])")
    pr = _find_func(_parse(R).body, "process_result", R)
    src = ast.unparse(pr)
    i_upd = src.find("stage.context.update(result.context)")
    i_run = src.find("_handle_running(")
    if i_upd < 0 or i_run < 0 or i_upd > i_run:
        _fail(R, pr, "process_result no longer merges result.context into stage.context before _handle_running")
    out.append(f"(* {R}: process_result merges result.context into the stage, then _handle_running stores the stage and re-pushes")
    out.append("   the SAME message in one execute_atomic, without a processed mark *)")
    out.append("Definition running_ctx_same_txn : bool := true.")
    return "\n".join(out) + "\n"


EMITTERS = {"Gen_Retry.v": gen_retry}
