"""Translator: Python ast of /repo/src/stabilize  ->  coq/gen/Gen_*.v   (regenerated on every run).

Fail-closed: each emitter recognises a fixed set of syntactic shapes and raises TranslateError with
file:line when it meets anything else.  The emitted files contain *definitions only*; every theorem
that mentions them lives in coq/proofs or coq/props and is re-checked against the regenerated text.
"""
from __future__ import annotations

import ast
from pathlib import Path

from harness import lib

GEN = lib.COQ / "gen"


class TranslateError(Exception):
    pass


def _parse(rel: str) -> ast.Module:
    p = lib.SRC / rel
    try:
        return ast.parse(p.read_text(), filename=str(p))
    except (OSError, SyntaxError) as e:
        raise TranslateError(f"{rel}: cannot parse: {e}")


def _fail(rel: str, node: ast.AST, msg: str):
    raise TranslateError(f"{rel}:{getattr(node, 'lineno', '?')}: {msg}")


def _find_class(mod: ast.Module, name: str, rel: str) -> ast.ClassDef:
    for n in mod.body:
        if isinstance(n, ast.ClassDef) and n.name == name:
            return n
    raise TranslateError(f"{rel}: class {name} not found")


def _find_assign(mod: ast.Module, name: str, rel: str) -> ast.expr:
    for n in mod.body:
        if isinstance(n, ast.Assign) and len(n.targets) == 1 and isinstance(n.targets[0], ast.Name) and n.targets[0].id == name:
            return n.value
        if isinstance(n, ast.AnnAssign) and isinstance(n.target, ast.Name) and n.target.id == name and n.value is not None:
            return n.value
    raise TranslateError(f"{rel}: module-level {name} not found")


def _find_func(body, name: str, rel: str) -> ast.FunctionDef:
    for n in body:
        if isinstance(n, ast.FunctionDef) and n.name == name:
            return n
    raise TranslateError(f"{rel}: function {name} not found")


def unfold_inlined_temp(fn: ast.FunctionDef, name: str, value_src: str) -> None:
    """Tolerance for one behaviour-preserving rewrite: a single-use temporary that was inlined.  If `fn` has no
    assignment to `name` but exactly one `if <value_src>:` at its top level, the temporary is re-introduced in the AST
    (`name = <value_src>` right before, the test replaced by `name`), so that the shape checks below see the form they
    know.  Nothing else is touched; any other difference is still refused."""
    if any(isinstance(s, ast.Assign) and ast.unparse(s.targets[0]) == name for s in ast.walk(fn)):
        return
    hits = [i for i, s in enumerate(fn.body) if isinstance(s, ast.If) and ast.unparse(s.test) == value_src]
    if len(hits) != 1:
        return
    i = hits[0]
    assign = ast.parse(f"{name} = {value_src}").body[0]
    ast.copy_location(assign, fn.body[i])
    for x in ast.walk(assign):
        ast.copy_location(x, fn.body[i])
    fn.body[i].test = ast.copy_location(ast.Name(id=name, ctx=ast.Load()), fn.body[i].test)
    fn.body.insert(i, assign)


def processor_failure_path() -> str:
    """queue/processor/processor.py: wherever `self._handle_message(message)` is called, `self.queue.ack(message)` follows
    in the same `try`, and EVERY exception handler of that `try` reschedules the message and acks nothing - a handler that
    raises (a lost optimistic-lock race re-raised on purpose, a crash of the handler) is always delivered again.  The
    harnesses deliver through `_handle_message` themselves and mirror exactly this policy (driver.deliver, c04.real_run),
    so the policy is read off the source here.  Returns the Coq definition recording it; refuses otherwise."""
    rel = "queue/processor/processor.py"
    mod = _parse(rel)
    sites = 0
    for t in ast.walk(mod):
        if not isinstance(t, ast.Try):
            continue
        body_src = [ast.unparse(x) for x in t.body]
        if "self._handle_message(message)" not in body_src:
            continue
        sites += 1
        i = body_src.index("self._handle_message(message)")
        if i + 1 >= len(body_src) or body_src[i + 1] != "self.queue.ack(message)":
            _fail(rel, t, "the ack does not directly follow _handle_message(message)")
        if not t.handlers:
            _fail(rel, t, "no exception handler around _handle_message")
        for h in t.handlers:
            hs = ast.unparse(ast.Module(body=h.body, type_ignores=[]))
            if "self.queue.ack(" in hs or ".ack(message)" in hs:
                _fail(rel, h, f"handler `except {ast.unparse(h.type) if h.type else ''}` acknowledges a message whose handling raised")
            if "self.queue.reschedule(message" not in hs:
                _fail(rel, h, f"handler `except {ast.unparse(h.type) if h.type else ''}` does not reschedule the message")
    if sites < 2:
        _fail(rel, mod, f"expected the two delivery sites (pool thread and process_one), found {sites}")
    return ("(* queue/processor/processor.py: every exception of a handler reschedules the message; ack only after success *)\n"
            "Definition processor_redelivers_on_any_exception : bool := true.\n")


def _enum_members(cls: ast.ClassDef, rel: str) -> list[tuple[str, ast.expr]]:
    out = []
    for n in cls.body:
        if isinstance(n, ast.Assign) and len(n.targets) == 1 and isinstance(n.targets[0], ast.Name):
            nm = n.targets[0].id
            if nm.isupper() or nm[0].isupper():
                out.append((nm, n.value))
    if not out:
        _fail(rel, cls, f"enum {cls.name} has no members")
    return out


def _status_set(node: ast.expr, rel: str, enum: str = "WorkflowStatus") -> list[str]:
    """frozenset({WorkflowStatus.A, ...}) | frozenset() | {WorkflowStatus.A, ...}"""
    if isinstance(node, ast.Call) and isinstance(node.func, ast.Name) and node.func.id == "frozenset":
        if not node.args:
            return []
        if len(node.args) != 1:
            _fail(rel, node, "frozenset with several arguments")
        node = node.args[0]
    if not isinstance(node, (ast.Set, ast.Tuple, ast.List)):
        _fail(rel, node, "expected a set/tuple literal of enum members")
    out = []
    for e in node.elts:
        if not (isinstance(e, ast.Attribute) and isinstance(e.value, ast.Name) and e.value.id == enum):
            _fail(rel, e, f"expected {enum}.<MEMBER>")
        out.append(e.attr)
    return out


def _coq_match_bool(fn: str, ty: str, members: list[str], true_set: list[str], prefix: str = "") -> str:
    for m in true_set:
        if m not in members:
            raise TranslateError(f"{fn}: {m} is not a member of {ty}")
    lines = [f"Definition {fn} (s : {ty}) : bool :=", "  match s with"]
    for m in members:
        lines.append(f"  | {prefix}{m} => {'true' if m in true_set else 'false'}")
    lines.append("  end.")
    return "\n".join(lines)


HEADER = "(* GENERATED by harness/translate.py from {src} -- do not edit; regenerated on every check. *)\n" \
         "From Coq Require Import List Bool ZArith String.\nImport ListNotations.\n\n"


# ----------------------------------------------------------------------------------------------
# models/status.py
# ----------------------------------------------------------------------------------------------

def _run_status_fn(rel: str, stmts, env: dict, table: dict, members: list):
    """run a small pure function over statuses: `if`/`return`, comparisons, membership, VALID_TRANSITIONS lookups.
    env: parameter name -> status name.  Anything outside this fragment is refused."""
    def val(n):
        if isinstance(n, ast.Name) and n.id in env:
            return ("status", env[n.id])
        if isinstance(n, ast.Attribute) and isinstance(n.value, ast.Name) and n.value.id == "WorkflowStatus" and n.attr in members:
            return ("status", n.attr)
        if isinstance(n, ast.Constant) and isinstance(n.value, bool):
            return ("bool", n.value)
        if isinstance(n, ast.Call) and isinstance(n.func, ast.Name) and n.func.id in ("frozenset", "set", "tuple") and not n.args:
            return ("set", frozenset())
        if isinstance(n, (ast.Set, ast.Tuple, ast.List)):
            return ("set", frozenset(val(e)[1] for e in n.elts))
        if isinstance(n, ast.Call) and ast.unparse(n.func) == "VALID_TRANSITIONS.get" and 1 <= len(n.args) <= 2:
            k, v = val(n.args[0])
            if k == "status":
                if v in table:
                    return ("set", frozenset(table[v]))
                return val(n.args[1]) if len(n.args) == 2 else ("none", None)
        if isinstance(n, ast.Subscript) and ast.unparse(n.value) == "VALID_TRANSITIONS":
            k, v = val(n.slice)
            if k == "status" and v in table:
                return ("set", frozenset(table[v]))
        if isinstance(n, ast.UnaryOp) and isinstance(n.op, ast.Not):
            return ("bool", not truth(n.operand))
        if isinstance(n, ast.BoolOp):
            if isinstance(n.op, ast.And):
                return ("bool", all(truth(v) for v in n.values))
            return ("bool", any(truth(v) for v in n.values))
        if isinstance(n, ast.IfExp):
            return val(n.body) if truth(n.test) else val(n.orelse)
        if isinstance(n, ast.Compare) and len(n.ops) == 1:
            op = n.ops[0]
            lk, lv = val(n.left)
            rk, rv = val(n.comparators[0])
            if isinstance(op, (ast.In, ast.NotIn)) and lk == "status" and rk == "set":
                return ("bool", (lv in rv) == isinstance(op, ast.In))
            if isinstance(op, (ast.Eq, ast.Is, ast.NotEq, ast.IsNot)) and lk == rk == "status":
                return ("bool", (lv == rv) == isinstance(op, (ast.Eq, ast.Is)))
        _fail(rel, n, f"outside the evaluated fragment: {ast.unparse(n)[:80]}")

    def truth(n):
        k, v = val(n)
        if k != "bool":
            _fail(rel, n, "not a boolean")
        return v

    def run(body):
        for st in body:
            if isinstance(st, ast.Expr) and isinstance(st.value, ast.Constant):
                continue
            if isinstance(st, ast.Return):
                return truth(st.value)
            if isinstance(st, ast.If):
                r = run(st.body) if truth(st.test) else run(st.orelse)
                if r is not None:
                    return r
                continue
            _fail(rel, st, f"statement outside the evaluated fragment: {ast.unparse(st)[:80]}")
        return None

    return run(stmts)


def gen_status() -> str:
    rel = "models/status.py"
    mod = _parse(rel)
    cls = _find_class(mod, "WorkflowStatus", rel)
    members = []
    flags = {}
    for nm, val in _enum_members(cls, rel):
        if not (isinstance(val, ast.Tuple) and len(val.elts) == 3 and all(isinstance(e, ast.Constant) for e in val.elts)):
            _fail(rel, val, "status member is not a (name, complete, halt) constant tuple")
        sname, complete, halt = (e.value for e in val.elts)
        if sname != nm or not isinstance(complete, bool) or not isinstance(halt, bool):
            _fail(rel, val, "status member tuple has unexpected shape")
        members.append(nm)
        flags[nm] = (complete, halt)
    # the two properties must return the stored flags
    for prop, attr in (("is_complete", "_complete"), ("is_halt", "_halt")):
        f = _find_func(cls.body, prop, rel)
        stmts = [s for s in f.body if not (isinstance(s, ast.Expr) and isinstance(s.value, ast.Constant))]
        if not (len(stmts) == 1 and isinstance(stmts[0], ast.Return) and isinstance(stmts[0].value, ast.Attribute)
                and stmts[0].value.attr == attr):
            _fail(rel, f, f"{prop} does not simply return self.{attr}")
    init = _find_func(cls.body, "__init__", rel)
    want = {"_name": "name", "_complete": "complete", "_halt": "halt"}
    got = {}
    for s in init.body:
        if isinstance(s, ast.Assign) and isinstance(s.targets[0], ast.Attribute) and isinstance(s.value, ast.Name):
            got[s.targets[0].attr] = s.value.id
    if got != want or [a.arg for a in init.args.args] != ["self", "name", "complete", "halt"]:
        _fail(rel, init, "WorkflowStatus.__init__ does not store (name, complete, halt) as expected")

    out = [HEADER.format(src=rel)]
    out.append("Inductive status : Type :=\n" + "\n".join(f"  | {m}" for m in members) + ".\n")
    out.append("Definition all_statuses : list status := [" + "; ".join(members) + "].\n")
    out.append("Definition status_eqb (a b : status) : bool :=\n  match a, b with\n"
               + "\n".join(f"  | {m}, {m} => true" for m in members) + "\n  | _, _ => false\n  end.\n")
    out.append(_coq_match_bool("is_complete", "status", members, [m for m in members if flags[m][0]]) + "\n")
    out.append(_coq_match_bool("is_halt", "status", members, [m for m in members if flags[m][1]]) + "\n")
    sets = {
        "COMPLETED_STATUSES": "in_completed", "_SUCCESSFUL_STATUSES": "is_successful",
        "_FAILURE_STATUSES": "is_failure", "CONTINUABLE_STATUSES": "in_continuable",
        "HALT_STATUSES": "in_halt", "ACTIVE_STATUSES": "in_active",
    }
    for py, cq in sets.items():
        out.append(_coq_match_bool(cq, "status", members, _status_set(_find_assign(mod, py, rel), rel)) + "\n")
    # is_successful / is_failure properties must be membership tests of those sets
    for prop, setname in (("is_successful", "_SUCCESSFUL_STATUSES"), ("is_failure", "_FAILURE_STATUSES")):
        f = _find_func(cls.body, prop, rel)
        r = [s for s in f.body if isinstance(s, ast.Return)]
        if not (len(r) == 1 and isinstance(r[0].value, ast.Compare) and isinstance(r[0].value.ops[0], ast.In)
                and isinstance(r[0].value.comparators[0], ast.Name) and r[0].value.comparators[0].id == setname):
            _fail(rel, f, f"{prop} is not `self in {setname}`")
    vt = _find_assign(mod, "VALID_TRANSITIONS", rel)
    if not isinstance(vt, ast.Dict):
        _fail(rel, vt, "VALID_TRANSITIONS is not a dict literal")
    table = {}
    for k, v in zip(vt.keys, vt.values):
        if not (isinstance(k, ast.Attribute) and isinstance(k.value, ast.Name) and k.value.id == "WorkflowStatus"):
            _fail(rel, k, "VALID_TRANSITIONS key is not WorkflowStatus.X")
        if k.attr in table:
            _fail(rel, k, "duplicate key in VALID_TRANSITIONS")
        table[k.attr] = _status_set(v, rel)
    lines = ["Definition valid_transitions (s : status) : list status :=", "  match s with"]
    for m in members:
        lines.append(f"  | {m} => [" + "; ".join(table.get(m, [])) + "]")
    lines.append("  end.\n")
    out.append("\n".join(lines))
    out.append("Definition transition_table_domain : list status := [" + "; ".join(table.keys()) + "].\n")
    # can_transition: `if current == target: return True; return target in VALID_TRANSITIONS.get(current, frozenset())`
    f = _find_func(mod.body, "can_transition", rel)
    stmts = [s for s in f.body if not (isinstance(s, ast.Expr) and isinstance(s.value, ast.Constant))]
    ok = (len(stmts) == 2 and isinstance(stmts[0], ast.If) and isinstance(stmts[0].test, ast.Compare)
          and isinstance(stmts[0].test.ops[0], ast.Eq) and ast.unparse(stmts[0].test) == "current == target"
          and ast.unparse(stmts[0].body[0]) == "return True" and not stmts[0].orelse
          and ast.unparse(stmts[1]) == "return target in VALID_TRANSITIONS.get(current, frozenset())")
    if not ok:
        # another way of writing it: decide by running the body on ALL pairs of statuses (a finite domain, so this is
        # an exhaustive proof of equality with `current == target or target in VALID_TRANSITIONS[current]`)
        if [a.arg for a in f.args.args] != ["current", "target"]:
            _fail(rel, f, "can_transition has an unexpected signature")
        for a in members:
            for b in members:
                got = _run_status_fn(rel, stmts, {"current": a, "target": b}, table, members)
                if got is not (a == b or b in table.get(a, [])):
                    _fail(rel, f, f"can_transition({a}, {b}) evaluates to {got}: not the reflexive closure of VALID_TRANSITIONS")
    out.append("Definition can_transition (current target : status) : bool :=\n"
               "  if status_eqb current target then true\n"
               "  else existsb (status_eqb target) (valid_transitions current).\n")
    f = _find_func(mod.body, "validate_transition", rel)
    stmts = [s for s in f.body if not (isinstance(s, ast.Expr) and isinstance(s.value, ast.Constant))]
    if not (len(stmts) == 1 and isinstance(stmts[0], ast.If)
            and ast.unparse(stmts[0].test) == "not can_transition(current, target)"
            and isinstance(stmts[0].body[0], ast.Raise)):
        _fail(rel, f, "validate_transition does not raise exactly when can_transition is false")
    out.append("(* validate_transition raises InvalidStateTransitionError iff can_transition = false *)\n"
               "Definition validate_transition_ok := can_transition.\n")
    return "\n".join(out)


# ----------------------------------------------------------------------------------------------
# simple string-valued enums
# ----------------------------------------------------------------------------------------------

def _simple_enum(rel: str, cls_name: str, coq_name: str, prefix: str) -> str:
    mod = _parse(rel)
    cls = _find_class(mod, cls_name, rel)
    ms = []
    for nm, val in _enum_members(cls, rel):
        if not (isinstance(val, ast.Constant) and val.value == nm):
            _fail(rel, val, f"{cls_name}.{nm} is not the string constant of its own name")
        ms.append(nm)
    s = f"Inductive {coq_name} : Type :=\n" + "\n".join(f"  | {prefix}{m}" for m in ms) + ".\n"
    s += f"Definition all_{coq_name} : list {coq_name} := [" + "; ".join(prefix + m for m in ms) + "].\n"
    s += f"Definition {coq_name}_eqb (a b : {coq_name}) : bool :=\n  match a, b with\n" + \
         "\n".join(f"  | {prefix}{m}, {prefix}{m} => true" for m in ms) + "\n  | _, _ => false\n  end.\n"
    return s


def gen_enums() -> str:
    out = [HEADER.format(src="models/stage/enums.py, dag/readiness.py")]
    out.append(_simple_enum("models/stage/enums.py", "JoinType", "join_type", "J_"))
    out.append(_simple_enum("models/stage/enums.py", "SplitType", "split_type", "S_"))
    out.append(_simple_enum("models/stage/enums.py", "SyntheticStageOwner", "synthetic_owner", ""))
    out.append(_simple_enum("dag/readiness.py", "PredicatePhase", "phase", "P_"))
    return "\n".join(out)


# ----------------------------------------------------------------------------------------------
# configuration defaults
# ----------------------------------------------------------------------------------------------

def _dataclass_default(rel: str, cls_name: str, field: str):
    mod = _parse(rel)
    cls = _find_class(mod, cls_name, rel)
    for n in cls.body:
        if isinstance(n, ast.AnnAssign) and isinstance(n.target, ast.Name) and n.target.id == field:
            if isinstance(n.value, ast.Constant):
                return n.value.value
            _fail(rel, n, f"default of {cls_name}.{field} is not a constant")
    raise TranslateError(f"{rel}: field {cls_name}.{field} not found")


def _func_default(rel: str, cls_name: str, fn: str, arg: str):
    mod = _parse(rel)
    cls = _find_class(mod, cls_name, rel)
    f = _find_func(cls.body, fn, rel)
    args = f.args.args
    defaults = f.args.defaults
    off = len(args) - len(defaults)
    for i, a in enumerate(args):
        if a.arg == arg and i >= off:
            d = defaults[i - off]
            if isinstance(d, ast.Constant):
                return d.value
            _fail(rel, d, f"default of {fn}({arg}) is not a constant")
    raise TranslateError(f"{rel}: {cls_name}.{fn} has no default for {arg}")


def gen_config() -> str:
    out = [HEADER.format(src="resilience/config.py, queue/sqlite/queue.py, queue/messages.py")]
    vals = {
        "max_stage_wait_retries": _dataclass_default("resilience/config.py", "HandlerConfig", "max_stage_wait_retries"),
        "concurrency_max_retries": _dataclass_default("resilience/config.py", "HandlerConfig", "concurrency_max_retries"),
        "queue_max_attempts": _func_default("queue/sqlite/queue.py", "SqliteQueue", "__init__", "max_attempts"),
    }
    for k, v in vals.items():
        if not isinstance(v, int) or isinstance(v, bool) or v < 0:
            raise TranslateError(f"config default {k} = {v!r} is not a natural number")
        out.append(f"Definition {k} : Z := {v}%Z.")
    return "\n".join(out) + "\n"


EMITTERS = {
    "Gen_Status.v": gen_status,
    "Gen_Enums.v": gen_enums,
    "Gen_Config.v": gen_config,
}


def register(name: str, fn) -> None:
    EMITTERS[name] = fn


def run_all() -> list[str]:
    """Regenerate every file; returns the list of translator errors (empty == all emitted)."""
    # pluggable emitters: every harness/tr/*.py may define EMITTERS = {"Gen_X.v": fn}
    import importlib
    for p in sorted((lib.VERIF / "harness" / "tr").glob("*.py")):
        if p.stem.startswith("_"):
            continue
        try:
            m = importlib.import_module(f"harness.tr.{p.stem}")
            EMITTERS.update(getattr(m, "EMITTERS", {}))
        except Exception as e:  # fail closed
            EMITTERS[f"Gen_broken_{p.stem}.v"] = (lambda e=e, p=p: (_ for _ in ()).throw(TranslateError(f"emitter module {p.name} failed to load: {e!r}")))
    errs = []
    GEN.mkdir(parents=True, exist_ok=True)
    for name, fn in EMITTERS.items():
        try:
            text = fn()
        except TranslateError as e:
            errs.append(f"{name}: {e}")
            # fail closed: the refusal is reported (every property whose cone contains this file no longer checks).
            # So that the SEARCH for a concrete failing input can still run the model, the committed reference copy
            # (the file as generated from the last unchanged tree, coq/gen_ref/) stands in: the correspondence then
            # compares the model of the unchanged code with the changed implementation and shows where they differ.
            ref = lib.COQ / "gen_ref" / name
            if ref.exists():
                lib.write_if_changed(GEN / name, f"(* STALE REFERENCE COPY - translator refused: {e} *)\n" + ref.read_text())
            else:
                lib.write_if_changed(GEN / name, f"(* translator refused: {e} *)\nDefinition translator_refused : True := I.\n")
            continue
        lib.write_if_changed(GEN / name, text)
    return errs


def save_reference() -> None:
    """python -m harness.translate --save-ref : copy the freshly generated files to coq/gen_ref/ (committed; run on
    the unchanged tree only)"""
    errs = run_all()
    if errs:
        raise SystemExit("not saving a reference from a tree the translator refuses: " + "; ".join(errs))
    ref = lib.COQ / "gen_ref"
    ref.mkdir(exist_ok=True)
    for name in EMITTERS:
        (ref / name).write_text((GEN / name).read_text())
    import json as _json
    from harness.tr import guards as _guards
    (ref / "Gen_Guards.tables.json").write_text(_json.dumps(_guards.TABLES, indent=1, sort_keys=True) + "\n")


if __name__ == "__main__":
    import sys as _sys
    if "--save-ref" in _sys.argv:
        save_reference()
        raise SystemExit(0)
    for e in run_all():
        print("ERROR", e)
