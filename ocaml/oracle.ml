(* Driver for the extracted Engine model: reads cases on stdin, prints one canonical state per commit.
   Hand-written I/O only; every engine decision comes from Engine_core (extracted from coq/model). *)
open Engine_core

let rec nat_of_int n = if n <= 0 then O else S (nat_of_int (n - 1))
let rec int_of_nat = function O -> 0 | S n -> 1 + int_of_nat n
let rec pos_of_int n = if n <= 1 then XH else if n land 1 = 0 then XO (pos_of_int (n lsr 1)) else XI (pos_of_int (n lsr 1))
let z_of_int n = if n = 0 then Z0 else if n > 0 then Zpos (pos_of_int n) else Zneg (pos_of_int (-n))
let rec int_of_pos = function XH -> 1 | XO p -> 2 * int_of_pos p | XI p -> 2 * int_of_pos p + 1
let int_of_z = function Z0 -> 0 | Zpos p -> int_of_pos p | Zneg p -> - (int_of_pos p)

let status_of_string = function
  | "NOT_STARTED" -> NOT_STARTED | "RUNNING" -> RUNNING | "PAUSED" -> PAUSED | "SUSPENDED" -> SUSPENDED
  | "SUCCEEDED" -> SUCCEEDED | "FAILED_CONTINUE" -> FAILED_CONTINUE | "TERMINAL" -> TERMINAL
  | "CANCELED" -> CANCELED | "REDIRECT" -> REDIRECT | "STOPPED" -> STOPPED | "SKIPPED" -> SKIPPED
  | "BUFFERED" -> BUFFERED | s -> failwith ("status " ^ s)
let string_of_status = function
  | NOT_STARTED -> "NOT_STARTED" | RUNNING -> "RUNNING" | PAUSED -> "PAUSED" | SUSPENDED -> "SUSPENDED"
  | SUCCEEDED -> "SUCCEEDED" | FAILED_CONTINUE -> "FAILED_CONTINUE" | TERMINAL -> "TERMINAL"
  | CANCELED -> "CANCELED" | REDIRECT -> "REDIRECT" | STOPPED -> "STOPPED" | SKIPPED -> "SKIPPED"
  | BUFFERED -> "BUFFERED"
let join_of_string = function
  | "AND" -> J_AND | "OR" -> J_OR | "MULTI_MERGE" -> J_MULTI_MERGE | "DISCRIMINATOR" -> J_DISCRIMINATOR
  | "N_OF_M" -> J_N_OF_M | s -> failwith ("join " ^ s)

let split_on c s = if s = "" then [] else String.split_on_char c s
let b01 s = s = "1"
let sb b = if b then "1" else "0"
let opt f s = if s = "-" then None else Some (f s)
let nat_s s = nat_of_int (int_of_string s)
let z_s s = z_of_int (int_of_string s)

(* kv "1:5,2:7" kept sorted by key through the model's own kv_set *)
let kv_of_string s =
  List.fold_left (fun m p -> match split_on ':' p with
      | [k; v] -> kv_set (nat_s k) (z_s v) m | _ -> failwith ("kv " ^ p)) [] (split_on ',' s)
let string_of_kv m = String.concat "," (List.map (fun (k, v) -> Printf.sprintf "%d:%d" (int_of_nat k) (int_of_z v)) m)

let field kvs k = try List.assoc k kvs with Not_found -> failwith ("missing field " ^ k)
let parse_fields toks = List.map (fun t -> match String.index_opt t '=' with
    | Some i -> (String.sub t 0 i, String.sub t (i + 1) (String.length t - i - 1))
    | None -> (t, "")) toks

(* child templates "script:ntasks:chain,..." *)
let tmpls_of_string s =
  List.map (fun p -> match split_on ':' p with
      | [sc; n; c] -> { tp_script = nat_s sc; tp_ntasks = nat_s n; tp_chain = b01 c; tp_blocking = false }
      | [sc; n; c; b] -> { tp_script = nat_s sc; tp_ntasks = nat_s n; tp_chain = b01 c; tp_blocking = b01 b }
      | _ -> failwith ("tmpl " ^ p)) (split_on ',' s)

let parse_stage toks =
  let kvs = parse_fields toks in
  let f = field kvs in
  let fo k d = try List.assoc k kvs with Not_found -> d in
  { s_reqs = List.map nat_s (split_on ',' (f "reqs")); s_join = join_of_string (f "join");
    s_threshold = z_s (f "thr"); s_cof = b01 (f "cof"); s_fp = b01 (f "fp");
    s_enabled = opt b01 (f "en"); s_mutex = opt nat_s (f "mutex"); s_choice = opt nat_s (f "choice");
    s_max_jumps = opt z_s (f "maxj"); s_split_or = b01 (f "sor");
    s_conds = List.map (fun p -> match split_on ':' p with [k; v] -> (nat_s k, b01 v) | _ -> failwith ("cond " ^ p)) (split_on ',' (f "conds")); s_status = NOT_STARTED; s_started = false; s_ended = false;
    s_version = Z0; s_fired = false; s_branches = []; s_bypass = false; s_jump_count = Z0; s_buffered = [];
    s_signal = None; s_has_exc = false; s_plan_pending = false; s_hydrated = []; s_ctx = kv_of_string (f "ctx"); s_outs = [];
    s_tasks = (let dis = List.map int_of_string (split_on ',' (f "dis")) in
               List.init (int_of_string (f "tasks")) (fun t -> mk_task (List.mem t dis)));
    s_syn = { y_parent = None; y_owner = None; y_script = nat_s (f "script"); y_ntasks = O;
              y_before = tmpls_of_string (fo "before" ""); y_after = tmpls_of_string (fo "after" "");
              y_fail = tmpls_of_string (fo "fail" ""); y_blocking = b01 (fo "blocking" "0");
              y_milestone = (match fo "milestone" "-" with
                             | "-" -> None
                             | v -> (match split_on ':' v with [m; st] -> Some (nat_s m, status_of_string st) | _ -> failwith ("milestone " ^ v)));
              y_expired = b01 (fo "expired" "0") };
    s_onfail = false }

let parse_step s =
  let kind, arg = match String.index_opt s ':' with
    | Some i -> (String.sub s 0 i, String.sub s (i + 1) (String.length s - i - 1)) | None -> (s, "") in
  let kv () = kv_of_string (String.concat "," (List.map (fun p -> String.concat ":" (String.split_on_char '=' p)) (split_on ',' arg))) in
  match kind with
  | "ok" -> RSucceed (kv ()) | "fail" -> RTerminal | "failc" -> RFailedContinue | "stop" -> RStopped
  | "run" -> RRunning (kv ()) | "trans" -> RTransient (kv ()) | "perm" | "exc" -> RPermanent
  | "jump" -> RJump (nat_s arg) | "susp" -> RSuspend | "skip" -> RSkipped | "cancel" -> RCanceled
  | "redir" -> RRedirect | _ -> failwith ("step " ^ s)

let string_of_msg = function
  | MStartWorkflow -> "StartWorkflow()"
  | MCompleteWorkflow k -> Printf.sprintf "CompleteWorkflow(%d)" (int_of_z k)
  | MCancelWorkflow -> "CancelWorkflow()"
  | MStartStage (i, k) -> Printf.sprintf "StartStage(%d,%d)" (int_of_nat i) (int_of_z k)
  | MCompleteStage i -> Printf.sprintf "CompleteStage(%d)" (int_of_nat i)
  | MSkipStage i -> Printf.sprintf "SkipStage(%d)" (int_of_nat i)
  | MCancelStage i -> Printf.sprintf "CancelStage(%d)" (int_of_nat i)
  | MStartTask (i, t) -> Printf.sprintf "StartTask(%d,%d)" (int_of_nat i) (int_of_nat t)
  | MRunTask (i, t) -> Printf.sprintf "RunTask(%d,%d)" (int_of_nat i) (int_of_nat t)
  | MCompleteTask (i, t, x) -> Printf.sprintf "CompleteTask(%d,%d,%s)" (int_of_nat i) (int_of_nat t) (string_of_status x)
  | MJumpToStage (i, tg, _, _) -> Printf.sprintf "JumpToStage(%d,%d)" (int_of_nat i) (int_of_nat tg)
  | MSignalStage (i, n, p) -> Printf.sprintf "SignalStage(%d,%d,%s)" (int_of_nat i) (int_of_nat n) (sb p)
  | MPauseTask (i, t) -> Printf.sprintf "PauseTask(%d,%d)" (int_of_nat i) (int_of_nat t)
  | MResumeStage i -> Printf.sprintf "ResumeStage(%d)" (int_of_nat i)
  | MRestartStage i -> Printf.sprintf "RestartStage(%d)" (int_of_nat i)
  | MContinueParent (i, o, k) -> Printf.sprintf "ContinueParentStage(%d,%s,%d)" (int_of_nat i)
                                   (match o with OwnBefore -> "B" | OwnAfter -> "A") (int_of_z k)

let string_of_state s =
  let b = Buffer.create 512 in
  Printf.bprintf b "W %s %s |" (string_of_status s.w_status) (sb s.w_canceled);
  List.iteri (fun i st ->
      Printf.bprintf b " S%d u%s%s n%s %s %s%s v%d f%s [%s] b%s j%d q%d g%s e%s p%s h[%s] {%s} {%s} [%s];" i
        (match st.s_syn.y_parent with None -> "-" | Some p -> string_of_int (int_of_nat p))
        (match st.s_syn.y_owner with None -> "-" | Some OwnBefore -> "B" | Some OwnAfter -> "A")
        (sb st.s_onfail) (string_of_status st.s_status)
        (sb st.s_started) (sb st.s_ended) (int_of_z st.s_version) (sb st.s_fired)
        (String.concat "," (List.map (fun n -> string_of_int (int_of_nat n)) st.s_branches))
        (sb st.s_bypass) (int_of_z st.s_jump_count) (List.length st.s_buffered)
        (match st.s_signal with None -> "-" | Some n -> string_of_int (int_of_nat n)) (sb st.s_has_exc) (sb st.s_plan_pending)
        (String.concat "," (List.map string_of_int (List.sort compare (List.map int_of_nat st.s_hydrated))))
        (string_of_kv st.s_ctx) (string_of_kv st.s_outs)
        (String.concat "," (List.map (fun t -> string_of_status t.t_status ^ (if t.t_started then "+" else "-")) st.s_tasks)))
    s.w_stages;
  Buffer.add_string b " | Q";
  List.iter (fun r -> Printf.bprintf b " %d:%s:%d" (int_of_nat r.q_id) (string_of_msg r.q_msg) (int_of_z r.q_attempts)) s.w_queue;
  Buffer.add_string b " | P";
  List.iter (fun n -> Printf.bprintf b " %d" n) (List.sort compare (List.map int_of_nat s.w_processed));
  Buffer.add_string b " | C";
  List.iter (fun ((m, k), o) -> Printf.bprintf b " %s%d=%d" (if m then "m" else "c") (int_of_nat k) (int_of_nat o)) s.w_claims;
  Printf.bprintf b " | X%d" (List.length s.g_execs);
  Buffer.contents b

(* candidate invariant clauses that are false in this state (indices into EngineInv.inv_clauses) *)
let failing_clauses s =
  let cl = inv_clauses s in
  String.concat "," (List.filteri (fun _ x -> x <> "") (List.mapi (fun i b -> if b then "" else string_of_int i) cl))

let () =
  let stages = ref [] and wmax = ref None and scripts = Hashtbl.create 16 and st = ref None in
  (* the model asks for the behaviour of task t of the stage at row i: the scripted behaviour is looked up by the
     template label of that row (y_script), so that stages created at run time find theirs *)
  let orc i t n =
    let label = match !st with
      | Some s -> (match List.nth_opt s.w_stages (int_of_nat i) with Some x -> int_of_nat x.s_syn.y_script | None -> int_of_nat i)
      | None -> int_of_nat i in
    match Hashtbl.find_opt scripts (label, int_of_nat t) with
    | None -> RSucceed []
    | Some steps -> let k = int_of_nat n in List.nth steps (min k (List.length steps - 1)) in
  let get () = match !st with Some s -> s | None ->
      let s = init_state (List.rev !stages) !wmax in st := Some s; s in
  try
    while true do
      let line = input_line stdin in
      try match List.filter (fun x -> x <> "") (String.split_on_char ' ' line) with
      | [] -> ()
      | "CASE" :: _ -> stages := []; wmax := None; Hashtbl.reset scripts; st := None; print_endline "CASE"
      | "STAGE" :: toks -> stages := parse_stage toks :: !stages
      | "WMAX" :: [v] -> wmax := opt z_s v
      | "SCRIPT" :: i :: t :: steps -> Hashtbl.replace scripts (int_of_string i, int_of_string t) (List.map parse_step steps)
      | "ACT" :: ["W"] ->
          (* the processor's maintenance sweeps (claims of finished executions, ...): no step of the model - a live
             workflow must look exactly as before *)
          let s = get () in
          print_endline ("  " ^ string_of_state s); print_endline "."
      | "ACT" :: rest ->
          let a = match rest with
            | ["D"; id; a] -> Deliver (nat_s id, b01 a)
            | ["X"; id; k] -> DeliverCut (nat_s id, nat_s k)
            | ["R"] -> Recover | ["C"] -> Cancel | ["B"] -> Submit
            | ["P"] -> Pause | ["U"] -> Unpause | ["T"; i] -> Restart (nat_s i)
            | ["S"; i; n; p] -> Signal (nat_s i, nat_s n, b01 p)
            | _ -> failwith ("action " ^ line) in
          let s = get () in
          let tr = step_trace orc s a in
          List.iter (fun s' -> print_endline ("  " ^ string_of_state s');
                      let f = failing_clauses s' in if f <> "" then print_endline ("  !INV " ^ f)) tr;
          st := Some (step orc s a);
          print_endline "."
      | "END" :: _ -> print_endline "END"
      | _ -> failwith ("line " ^ line)
      with Failure m | Invalid_argument m -> print_endline ("  ERROR " ^ m); print_endline "."
    done
  with End_of_file -> ()
